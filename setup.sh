#!/bin/bash
# Offline setup: nothing is compiled or fetched; verify the interpreter and create output dirs.
cd "$(dirname "$0")" || exit 1
/venv/bin/python - <<'PY' || exit 1
import sys, numpy, networkx
assert sys.version_info[:2] >= (3, 12), sys.version
assert hasattr(sys, 'monitoring')
print('python', sys.version.split()[0], 'numpy', numpy.__version__, 'networkx', networkx.__version__)
PY
mkdir -p evidence replays
chmod +x check
echo setup ok
