"""python -m mc.run Cxx [--tier quick|thorough] [--replay file]"""
import sys, os, json, importlib, argparse, traceback


def main():
    ap = argparse.ArgumentParser()
    ap.add_argument('pid')
    ap.add_argument('--tier', default=os.environ.get('VERIF_TIER', 'quick'))
    ap.add_argument('--replay', default=None)
    a = ap.parse_args()
    tier = a.tier if a.tier in ('quick', 'thorough') else 'quick'
    try:
        seed = int(os.environ.get('VERIF_SEED', '0'))
    except ValueError:
        seed = 0
    from . import core
    try:
        core.import_dsw()
        mod = importlib.import_module('mc.props.' + a.pid)
    except BaseException:
        traceback.print_exc()
        print('UNUSABLE property=%s: import of dsw or of the check failed' % a.pid)
        return 2
    if a.replay:
        with open(a.replay) as fh:
            rp = json.load(fh)
        r = core.Res()
        mod.check_case(r, rp['kind'], rp['case'])
        if r.nviol:
            for x in r.viol:
                print('REPRODUCED %s kind=%s\n  case=%s\n  expected=%s\n  observed=%s\n  %s' % (
                    x['sig'], x['kind'], json.dumps(x['case'])[:600], json.dumps(x['expected'])[:400],
                    json.dumps(x['observed'])[:400], x['note']))
            print('VIOLATION property=%s replay=%s' % (a.pid, os.path.abspath(a.replay)))
            return 1
        print('replay %s: property holds on this case' % a.replay)
        return 0
    ctx = core.Ctx(a.pid, tier, seed)
    try:
        mod.run(ctx)
    except BaseException:
        traceback.print_exc()
        print('UNUSABLE property=%s: the check crashed' % a.pid)
        return 2
    return ctx.finish()


if __name__ == '__main__':
    sys.exit(main())
