"""Reference models.  Plain Python ints, lists, sets and str.  No numpy, no import of dsw."""
from fractions import Fraction
from math import gcd

NUC = "ACGT"
COMP = {'A': 'T', 'C': 'G', 'G': 'C', 'T': 'A'}


# ------------------------------------------------------------------ k-mers and de Bruijn arcs
def kmer(v, k):
    s = ''
    for _ in range(k):
        s = NUC[v % 4] + s
        v //= 4
    return s


def idx(s):
    v = 0
    for c in s:
        v = v * 4 + NUC.index(c)
    return v


def succ_s(v, k):
    """Literal definition: drop the first nucleotide, append one (A,C,G,T order)."""
    s = kmer(v, k)
    return [idx(s[1:] + c) for c in NUC]


def pred_s(v, k):
    """Literal definition: drop the last nucleotide, prepend one (A,C,G,T order)."""
    s = kmer(v, k)
    return [idx(c + s[:-1]) for c in NUC]


def succ(v, k):
    b = (v * 4) % (4 ** k)
    return [b, b + 1, b + 2, b + 3]


def pred(v, k):
    q = v // 4
    p = 4 ** (k - 1)
    return [q, q + p, q + 2 * p, q + 3 * p]


def revcomp(s):
    return ''.join(COMP[c] for c in reversed(s))


# ------------------------------------------------------------------ graphs (rows of 4 ints)
def complete(k):
    return [succ(v, k) for v in range(4 ** k)]


def from_mask(mask, k):
    """Vertex-induced graph on the set `mask` (a set / list of booleans / bit int is NOT accepted:
    pass a set of ints)."""
    return [[(w if (v in mask and w in mask) else -1) for w in succ(v, k)] for v in range(4 ** k)]


def k1graph(code):
    """Order-1 graph from a 16-bit arc code: bit 4u+j <=> arc u -> j."""
    return [[(j if (code >> (4 * u + j)) & 1 else -1) for j in range(4)] for u in range(4)]


def outs(G, v):
    row = G[v]
    return [j for j in range(4) if row[j] >= 0]


def wellformed_arcs(G, k):
    """Every entry is -1 or the shift-append successor in its column."""
    for v in range(len(G)):
        s = succ(v, k)
        for j in range(4):
            if G[v][j] != -1 and G[v][j] != s[j]:
                return False
    return True


def reach(G, start):
    seen = {start}
    stack = [start]
    while stack:
        u = stack.pop()
        for w in G[u]:
            if w >= 0 and w not in seen:
                seen.add(w)
                stack.append(w)
    return seen


def has_arcs(G):
    return {v for v in range(len(G)) if any(w >= 0 for w in G[v])}


def is_walk(G, start, s):
    v = start
    for c in s:
        j = NUC.find(c)
        if j < 0 or len(c) != 1:
            return False
        w = G[v][j]
        if w < 0:
            return False
        v = w
    return True


def walk_end(G, start, s):
    v = start
    for c in s:
        v = G[v][NUC.index(c)]
    return v


def can_reach_branch(G):
    """Set of vertices that can reach (in >= 0 steps) a vertex with out-degree >= 2."""
    n = len(G)
    good = {v for v in range(n) if len(outs(G, v)) >= 2}
    changed = True
    while changed:
        changed = False
        for v in range(n):
            if v not in good and any(w >= 0 and w in good for w in G[v]):
                good.add(v)
                changed = True
    return good


def wellformed_start(G, start, crb=None):
    """C01's precondition: every vertex reachable from start has an arc and can reach a branching
    vertex."""
    if crb is None:
        crb = can_reach_branch(G)
    R = reach(G, start)
    return all(v in crb for v in R)


def deg1_cycle_free(G):
    """No cycle among out-degree-1 vertices (=> encoding terminates for every message)."""
    n = len(G)
    nxt = {}
    for v in range(n):
        o = outs(G, v)
        if len(o) == 1:
            nxt[v] = G[v][o[0]]
    longest = 0
    for v in nxt:
        u, steps = v, 0
        while u in nxt:
            u = nxt[u]
            steps += 1
            if steps > len(nxt):
                return False, None
        longest = max(longest, steps)
    return True, longest


# ------------------------------------------------------------------ reference coder
class RefError(Exception):
    pass


def pick(live, row, d):
    """d-th live arc in A<C<G<T order; with a table row: the live arc whose entry is d-th smallest."""
    if row is None:
        return live[d]
    return sorted(live, key=lambda j: row[j])[d]


def rank(live, row, j):
    if row is None:
        return live.index(j)
    return sorted(live, key=lambda x: row[x]).index(j)


def bits_value(bits):
    q = 0
    for b in bits:
        q = q * 2 + int(b)
    return q


def ref_encode(bits, G, start, table=None, fast=False, cap=None, trace=None):
    v, out = start, []
    L = len(bits)
    cap = cap if cap is not None else (L + 2) * (len(G) + 2) + 8
    if not fast:
        q = bits_value(bits)
        while q != 0:
            live = outs(G, v)
            r = len(live)
            if r == 0:
                raise RefError('dead')
            if r == 1:
                j = live[0]
            else:
                q, d = divmod(q, r)
                j = pick(live, table[v] if table is not None else None, d)
            if trace is not None:
                trace.append((v, r))
            out.append(NUC[j])
            v = G[v][j]
            if len(out) > cap:
                raise RefError('diverges')
    else:
        loc = 0
        while loc < L:
            live = outs(G, v)
            r = len(live)
            if r == 4:
                d = int(bits[loc]) * 2 + (int(bits[loc + 1]) if loc + 1 < L else 0)
                loc += 2
                j = pick(live, table[v] if table is not None else None, d)
            elif r == 2:
                d = int(bits[loc])
                loc += 1
                j = pick(live, table[v] if table is not None else None, d)
            elif r == 1:
                j = live[0]
            elif r == 3:
                raise RefError('deg3')
            else:
                raise RefError('dead')
            if trace is not None:
                trace.append((v, r))
            out.append(NUC[j])
            v = G[v][j]
            if len(out) > cap:
                raise RefError('diverges')
    return ''.join(out)


def ref_digits(s, G, start, table=None):
    """(radix, digit) for every step of the walk s that happens at a branching vertex."""
    v, ds = start, []
    for c in s:
        j = NUC.index(c)
        live = outs(G, v)
        if j not in live:
            raise RefError('notwalk')
        if len(live) >= 2:
            ds.append((len(live), rank(live, table[v] if table is not None else None, j)))
        v = G[v][j]
    return ds


def ref_value(s, G, start, table=None):
    val = 0
    for r, d in reversed(ref_digits(s, G, start, table)):
        val = val * r + d
    return val


def value_bits(val, L):
    """big-endian rendering at width L, or None when it does not fit."""
    if val >= 2 ** L:
        return None
    return [(val >> (L - 1 - i)) & 1 for i in range(L)]


def ref_fast_bits(s, G, start, table=None):
    """Bits carried by the walk s in fast mode: 2 per 4-way step (MSB first), 1 per 2-way step.
    Returns (bits, last_radix) or raises RefError('deg3')."""
    v, bits, last = start, [], 0
    for c in s:
        j = NUC.index(c)
        live = outs(G, v)
        if j not in live:
            raise RefError('notwalk')
        r = len(live)
        if r == 3:
            raise RefError('deg3')
        d = rank(live, table[v] if table is not None else None, j)
        if r == 4:
            bits += [d // 2, d % 2]
        elif r == 2:
            bits.append(d)
        last = r
        v = G[v][j]
    return bits, last


# ------------------------------------------------------------------ VT check
def vt(s, n):
    vals = [NUC.index(c) for c in s]
    flag = sum(vals) % 4
    asc = sum(i for i in range(len(vals) - 1) if vals[i] < vals[i + 1]) % (4 ** (n - 1))
    out = ''
    for _ in range(n - 1):
        out = NUC[asc % 4] + out
        asc //= 4
    return NUC[flag] + out


def vt2(s, n):
    """Second formulation (cumulative) for cross-checking vt."""
    flag, asc = 0, 0
    prev = None
    for i, c in enumerate(s):
        x = NUC.index(c)
        flag = (flag + x) % 4
        if prev is not None and prev < x:
            asc += i - 1
        prev = x
    asc %= 4 ** (n - 1)
    return NUC[flag] + kmer(asc, n - 1)


# ------------------------------------------------------------------ greatest fixed point
def gfp(mask, k, t):
    """Largest S within mask such that every v in S has >= t successors in S and, for t == 1,
    every v in S reaches (inside S) a vertex with >= 2 successors in S."""
    S = set(mask)
    while True:
        changed = False
        while True:
            drop = [v for v in S if sum(1 for w in succ(v, k) if w in S) < t]
            if not drop:
                break
            S.difference_update(drop)
            changed = True
        if t == 1 and S:
            good = {v for v in S if sum(1 for w in succ(v, k) if w in S) >= 2}
            grew = True
            while grew:
                grew = False
                for v in S:
                    if v not in good and any(w in good for w in succ(v, k) if w in S):
                        good.add(v)
                        grew = True
            if good != S:
                S = good
                changed = True
        if not changed:
            return S


def closed(S, k, t):
    """The closure predicate of C03, literally."""
    S = set(S)
    deg = {v: sum(1 for w in succ(v, k) if w in S) for v in S}
    if any(d < t for d in deg.values()):
        return False
    if t == 1 and S:
        good = {v for v in S if deg[v] >= 2}
        grew = True
        while grew:
            grew = False
            for v in S:
                if v not in good and any(w in good for w in succ(v, k) if w in S):
                    good.add(v)
                    grew = True
        if good != S:
            return False
    return True


def gfp_brute(mask, k, t):
    """Literal definition: union of all closed subsets of mask (<= 12 vertices)."""
    m = sorted(mask)
    best = set()
    for bitsx in range(1 << len(m)):
        S = {m[i] for i in range(len(m)) if bitsx >> i & 1}
        if closed(S, k, t):
            best |= S
    return best


def trimming_rounds(mask, k, t):
    S, n = set(mask), 0
    while True:
        T = {v for v in S if sum(1 for w in succ(v, k) if w in S) >= t}
        n += 1
        if T == S:
            return n
        S = T


# ------------------------------------------------------------------ filter predicate
def seq_ok(cfg, s):
    """Whole-sequence verdict of the local filter as documented.  cfg = (k, run, gc, motifs) with
    gc = None or (lo_str, hi_str) decimal strings as the user wrote them."""
    k, run, gc, motifs = cfg
    for c in s:
        if c not in NUC or len(c) != 1:
            return False
    if run is not None:
        r, prev = 0, None
        for c in s:
            r = r + 1 if c == prev else 1
            prev = c
            if r > run:
                return False
    if motifs is not None:
        for m in motifs:
            if m in s:
                return False
            try:
                rc = revcomp(m)
            except KeyError:
                rc = None
            if rc is not None and rc in s:
                return False
    if gc is not None:
        lo, hi = Fraction(gc[0]), Fraction(gc[1])
        if len(s) >= k:
            for i in range(len(s) - k + 1):
                w = s[i:i + k]
                g = sum(1 for c in w if c in 'CG')
                if g > hi * k or g < lo * k:
                    return False
        else:
            g = sum(1 for c in s if c in 'CG')
            a = sum(1 for c in s if c in 'AT')
            if g > hi * k or a > (1 - lo) * k:
                return False
    return True


def window_decidable(cfg):
    k, run, gc, motifs = cfg
    if run is not None and not run < k:
        return False
    if motifs is not None and any(len(m) > k for m in motifs):
        return False
    return True


# ------------------------------------------------------------------ SCC / period / spectral radius
def tarjan(n, adj):
    index, low, onst, st, comps = {}, {}, set(), [], []
    counter = [0]
    for root in range(n):
        if root in index:
            continue
        work = [(root, 0)]
        while work:
            v, i = work.pop()
            if i == 0:
                index[v] = low[v] = counter[0]
                counter[0] += 1
                st.append(v)
                onst.add(v)
            rec = False
            nb = adj[v]
            while i < len(nb):
                w = nb[i]
                i += 1
                if w not in index:
                    work.append((v, i))
                    work.append((w, 0))
                    rec = True
                    break
                elif w in onst:
                    low[v] = min(low[v], index[w])
            if rec:
                continue
            if low[v] == index[v]:
                comp = []
                while True:
                    w = st.pop()
                    onst.discard(w)
                    comp.append(w)
                    if w == v:
                        break
                comps.append(comp)
            if work:
                u = work[-1][0]
                low[u] = min(low[u], low[v])
    return comps


def period(comp, adj):
    cs = set(comp)
    root = comp[0]
    lvl = {root: 0}
    q = [root]
    g = 0
    while q:
        nq = []
        for u in q:
            for w in adj[u]:
                if w not in cs:
                    continue
                if w not in lvl:
                    lvl[w] = lvl[u] + 1
                    nq.append(w)
                else:
                    g = gcd(g, lvl[u] + 1 - lvl[w])
        q = nq
    return g


def rho_bounds(comp, adj, iters=2000, eps=1e-13):
    """Collatz-Wielandt enclosure of the spectral radius of the irreducible block on comp, by
    power iteration on B + I."""
    cs = sorted(comp)
    pos = {v: i for i, v in enumerate(cs)}
    nb = [[pos[w] for w in adj[v] if w in pos] for v in cs]
    x = [1.0] * len(cs)
    lo, hi = 0.0, float('inf')
    for _ in range(iters):
        y = [x[i] + sum(x[j] for j in nb[i]) for i in range(len(cs))]
        ratios = [y[i] / x[i] for i in range(len(cs))]
        lo, hi = max(lo, min(ratios) - 1), min(hi, max(ratios) - 1)
        m = max(y)
        x = [a / m for a in y]
        if hi - lo < eps:
            break
    return lo, hi


# ------------------------------------------------------------------ compiled filter predicate (fast)
def compile_cfg(cfg):
    """Integer thresholds from the decimals the user wrote: g > hi*k <=> g > floor(hi*k), etc."""
    from math import floor, ceil
    k, run, gc, motifs = cfg
    ms = None
    if motifs is not None:
        ms = []
        for m in motifs:
            ms.append(m)
            try:
                ms.append(revcomp(m))
            except KeyError:
                pass
    if gc is None:
        return (k, run, None, ms)
    lo, hi = Fraction(gc[0]), Fraction(gc[1])
    return (k, run, (ceil(lo * k), floor(hi * k), floor((1 - lo) * k)), ms)


def seq_ok_c(c, s):
    k, run, gc, ms = c
    for ch in s:
        if ch not in NUC:
            return False
    if run is not None:
        for ch in NUC:
            if ch * (run + 1) in s:
                return False
    if ms is not None:
        for m in ms:
            if m in s:
                return False
    if gc is not None:
        glo, ghi, amax = gc
        n = len(s)
        if n >= k:
            g = s.count('C', 0, k) + s.count('G', 0, k)
            if g > ghi or g < glo:
                return False
            for i in range(1, n - k + 1):
                g += (s[i + k - 1] in 'CG') - (s[i - 1] in 'CG')
                if g > ghi or g < glo:
                    return False
        else:
            g = s.count('C') + s.count('G')
            if g > ghi or (n - g) > amax:
                return False
    return True


# ------------------------------------------------------------------ intersection score (reference)
def ref_scores(G, k, has_insertion=True, has_deletion=True):
    """The arc score used by arc removal, as the pinned library computes it in a fresh process:
    branches are the sets of end points of all (k-1)-step walks; an arc gets the sizes of the unions
    of its branch with every sibling branch, with the branch of every arc after it (insertion) and
    with the branch of its own origin (deletion)."""
    n = len(G)
    adj = [[w for w in G[v] if w >= 0] for v in range(n)]
    depth = k - 1
    memo = {}

    def leaves(v):
        if v not in memo:
            cur = {v}
            for _ in range(depth):
                nxt = set()
                for u in cur:
                    nxt.update(adj[u])
                cur = nxt
            memo[v] = cur
        return memo[v]

    S = [[0] * 4 for _ in range(n)]
    for u in range(n):
        if not adj[u]:
            continue
        br = [leaves(w) for w in adj[u]]
        cols = [w % 4 for w in adj[u]]
        for i in range(len(br)):
            for j in range(i + 1, len(br)):
                sc = len(br[i] | br[j])
                S[u][cols[i]] += sc
                S[u][cols[j]] += sc
        if has_insertion:
            for i, w in enumerate(adj[u]):
                for x in adj[w]:
                    S[u][cols[i]] += len(br[i] | leaves(x))
        if has_deletion:
            d = leaves(u)
            for i in range(len(br)):
                S[u][cols[i]] += len(br[i] | d)
    return S
