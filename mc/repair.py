"""Shared pieces of the repair checks (C08, C09, C10): graph families and the call wrapper."""
import itertools
import numpy as np
from . import core, gen, oracle as O, util as U
from .observe import run as brun


def budget(n, k, heap=1000):
    return 64 * (n + 1) * (k + 1) ** 2 + 64 + 8 * int(min(heap, 4 ** min(n, 12), 10 ** 6)) * (n + 2)


def call(s, acc, start, k, chk=None, indel=False, heap=1000, lim=None):
    import dsw
    return brun(dsw.repair_dna, dna_sequence=s, accessor=acc, start_index=start, observed_length=k,
                vt_check=chk, has_indel=indel, heap_size=heap, lim=lim or budget(len(s), k, heap))


def wellformed_result(res):
    """(candidates: list of str, statistics: tuple of 4 numbers)"""
    try:
        cands, stats = res
        if not isinstance(cands, (list, tuple)) or any(not isinstance(c, str) for c in cands):
            return False
        if not isinstance(stats, (list, tuple)) or len(stats) != 4:
            return False
        for x in stats:
            float(x)
        return True
    except Exception:
        return False


def garcs(G):
    return [(u, j) for u in range(len(G)) for j in range(4) if G[u][j] >= 0]


def gcase(k, G):
    if getattr(G, 'desc', None):
        return {'k': k, 'big': list(G.desc)}
    return {'k': k, 'G': G} if len(G) <= 16 else {'k': k, 'arcs': garcs(G)}


class BigG(list):
    """A graph of a large order, named by the rule that builds it (replay files carry the rule)."""


_BIGS = {}


def big_graph(k, maxrun, lo, hi):
    """Order-k graph (k = 7..10) built here, not by the library: vertices are the k-mers with no
    homopolymer run longer than maxrun and lo <= #GC <= hi, trimmed until every vertex keeps a
    successor (greatest fixed point), arcs shift-append.  Vertex numbers pass 2^15 and 2^16 from
    order 8 / 9 on."""
    import numpy as np
    key = (k, maxrun, lo, hi)
    if key in _BIGS:
        return _BIGS[key]
    n = 4 ** k
    v = np.arange(n, dtype=np.int64)
    digs = (v[:, None] // (4 ** np.arange(k - 1, -1, -1, dtype=np.int64))[None, :]) % 4
    gc = ((digs == 1) | (digs == 2)).sum(1)
    run = np.ones(n, dtype=np.int64)
    best = np.ones(n, dtype=np.int64)
    for i in range(1, k):
        run = np.where(digs[:, i] == digs[:, i - 1], run + 1, 1)
        best = np.maximum(best, run)
    valid = (gc >= lo) & (gc <= hi) & (best <= maxrun)
    succ = ((v * 4) % n)[:, None] + np.arange(4, dtype=np.int64)[None, :]
    while True:
        ok = valid[succ] & valid[:, None]
        nv = valid & (ok.sum(1) >= 1)
        if (nv == valid).all():
            break
        valid = nv
    G = BigG(np.where(ok, succ, -1).tolist())
    G.desc = [k, maxrun, lo, hi]
    _BIGS[key] = G
    return G


def graph_of(case):
    if case.get('big'):
        return big_graph(*case['big'])
    if case.get('G') is not None:
        return case['G']
    G = [[-1] * 4 for _ in range(4 ** case['k'])]
    for u, j in case['arcs']:
        G[u][j] = O.succ(u, case['k'])[j]
    return G


# ------------------------------------------------------------------------------- graph families
def k1_generated():
    """Distinct order-1 graphs returned by the real generation over all 15 masks x t=1..4."""
    out, seen = [], set()
    for m in range(1, 16):
        mask = {i for i in range(4) if m >> i & 1}
        for t in (1, 2, 3, 4):
            tag, G, acc = gen.gen_from_mask(1, mask, t)
            if tag == 'ok':
                key = str(G)
                if key not in seen:
                    seen.add(key)
                    out.append((1, G, t))
    return out


def k1_arc_family():
    """Order-1 arc subsets with at most 2 arcs removed from the complete graph or at most 3 arcs."""
    codes = set()
    full = (1 << 16) - 1
    for d in range(0, 3):
        for rem in itertools.combinations(range(16), d):
            c = full
            for i in rem:
                c &= ~(1 << i)
            codes.add(c)
    for d in range(0, 4):
        for keep in itertools.combinations(range(16), d):
            c = 0
            for i in keep:
                c |= 1 << i
            codes.add(c)
    return [(1, O.k1graph(c), 0) for c in sorted(codes)]


def k2_generated_masks(ts=(2, 3)):
    """Order-2 vertex masks in the fixed order (vertex count of the result, mask) whose generated
    graph (reference gfp, to be produced by the real generator in the worker) is distinct."""
    seen, out = set(), []
    for m in range(1, 1 << 16):
        mask = frozenset(i for i in range(16) if m >> i & 1)
        for t in ts:
            if O.closed(mask, 2, t):   # the closed masks themselves are the distinct generated graphs
                out.append((len(mask), m, t))
    out.sort()
    return [(m, t) for _, m, t in out]


def filter_graphs(ks, ts=(1, 2), small=False):
    """Graphs generated through the real pipeline from a small filter menu (distinct)."""
    from .props.C11 import filt_from
    menu = []
    for k in ks:
        for run, gc, mot in [(None, None, None), (1, None, None), (2, None, None), (None, ('0.25', '0.75'), None),
                             (None, ('0.4', '0.6'), None), (2, ('0.4', '0.6'), None), (None, None, ['GC']),
                             (2, ('0.25', '0.75'), ['AC']), (None, ('0.5', '0.5'), None), (None, None, ['ACG', 'TT'])]:
            if run is not None and run >= k:
                continue
            if mot is not None and any(len(x) > k for x in mot):
                continue
            menu.append((k, ('local', (k, run, gc, mot))))
        menu.append((k, ('nopal',)))
    if small:
        menu = menu[::2]
    out, seen = [], set()
    for k, desc in menu:
        f = filt_from(desc)
        for t in ts:
            tag, G, acc, mask = gen.gen_from_filter(k, f, t)
            if tag == 'ok':
                key = (k, str(garcs(G)))
                if key not in seen:
                    seen.add(key)
                    out.append((k, G, t))
    return out


def binary_graphs(k, pairs):
    from .coder import binary_arc_graphs
    out = []
    for a, b in pairs:
        for m, verts, G in binary_arc_graphs(k, a, b):
            out.append((k, G, 0))
    return out
