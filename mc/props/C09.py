"""C09 - repair leaves clean strands alone and only returns check-consistent candidates."""
import itertools
import numpy as np
from .. import core, repair as RP, oracle as O, util as U

PID = 'C09'
OPTS_A = [(False, 1000), (True, 1000), (True, 0), (False, 1), (True, 2)]
_LAST = {}
ALL2 = [a + b for a in 'ACGT' for b in 'ACGT']


def clean_case(r, k, G, acc, start, s, chk_kind, indel, heap):
    good = O.vt(s, 4)
    chk = None if chk_kind == 'absent' else good if chk_kind == 'correct' else good[:-1] + ('C' if good[-1] != 'C' else 'G')
    st, res, loops = RP.call(s, acc, start, k, chk=chk, indel=indel, heap=heap)
    r.trans += 1
    r.evals += 1
    pre = 'C09|clean|check=%s|' % chk_kind
    case = dict(RP.gcase(k, G), start=start, s=s, chk=chk, indel=indel, heap=heap, clean=True)
    if st != 'ok' or not RP.wellformed_result(res):
        r.v(pre + ('does-not-return' if st == 'budget' else 'raised-%s' % type(res).__name__ if st == 'exc' else 'malformed-result'),
            'rep', case, '[strand]', repr(res)[:150])
        return
    cands, stats = list(res[0]), res[1]
    exp = [] if chk_kind == 'wrong' else [s]
    if cands != exp:
        r.v(pre + ('clean-strand-altered-or-extra-candidates' if exp else 'candidates-despite-wrong-check'), 'rep', case, exp, cands[:6])
    if int(stats[0]) != 0:
        r.v(pre + 'reports-detected-errors-on-a-walk', 'rep', case, 0, core._j(stats))
    r.out.add(('clean', chk_kind, len(cands)))


def any_case(r, k, G, acc, start, s, chk, indel, heap=1000):
    st, res, loops = RP.call(s, acc, start, k, chk=chk, indel=indel, heap=heap)
    r.trans += 1
    r.evals += 1
    if st != 'ok' or not RP.wellformed_result(res):
        return          # "whenever the repair returns": termination is C10's business
    cands, stats = list(res[0]), res[1]
    pre = 'C09|any-input|'
    case = dict(RP.gcase(k, G), start=start, s=s, chk=chk, indel=indel, heap=heap, clean=False)
    path = 'fallback' if int(stats[2]) == 0 else 'product'
    if path == 'product' and len(cands) > 1:
        _LAST['case'] = dict(RP.gcase(k, G) if len(G) <= 16 else {'k': k}, start=start, strand=s if len(s) <= 60 else s[:57] + '...', check=chk, indel=indel, heap=heap, candidates=cands[:4], statistics=core._j(stats))
    r.ctr['path_' + path] += 1
    if cands != sorted(cands):
        r.v(pre + 'candidates-not-sorted|%s-path' % path, 'rep', case, sorted(cands)[:6], cands[:6])
    if len(set(cands)) != len(cands):
        r.v(pre + 'duplicate-candidates|%s-path' % path, 'rep', case, None, cands[:6])
    if chk is not None:
        bad = [c for c in cands if not all(ch in 'ACGT' for ch in c) or O.vt(c, len(chk)) != chk]
        if bad:
            r.v(pre + 'candidate-does-not-reproduce-check|%s-path' % path, 'rep', case, chk, bad[:4])
        r.ctr['with_check_candidates'] += len(cands)
    r.out.add((path, min(len(cands), 4), chk is not None))


def check_graph(r, k, G, n, starts, thin=99):
    acc = U.A_reuse(G)
    for start in starts:
        ws = [w for w in U.walks_upto(G, start, n) if len(w) >= k]
        for w in ws:
            for ck in ('absent', 'correct', 'wrong'):
                for indel, heap in OPTS_A:
                    clean_case(r, k, G, acc, start, w, ck, indel, heap)
        r.states += len(ws)
        r.ctr['clean_walks'] += len(ws)
    strings = list(U.all_strings(n, nmin=k))
    for start in starts:
        for s in strings:
            chks = {None, O.vt(s, 3)}
            for e in U.single_edits(s):
                if e[0] == 'S' and len(s) < thin:
                    chks.add(O.vt(e[3], 3))
            for chk in sorted(chks, key=lambda x: (x is not None, x)):
                for indel in (False, True):
                    any_case(r, k, G, acc, start, s, chk, indel)
            if len(s) <= 3:
                for heap in (1, 3):          # a heap limit below the number of candidates, with a check supplied
                    any_case(r, k, G, acc, start, s, O.vt(s[::-1], 3), True, heap)
                    any_case(r, k, G, acc, start, s, O.vt(s, 3), True, heap)
        r.states += len(strings)
        r.nontriv += len(strings)


def long_graph(r, k, G, start, n):
    """Long strands: clean rule walks (must come back untouched) and the same walks with two or
    three edits at every pair of offsets on a grid (candidates sorted, duplicate-free, check-consistent)."""
    acc = U.A(G)
    base = ((7, 3), (1, 0), (5, 1))
    more = [(a, b) for a in range(1, 8) for b in range(4) if (a, b) not in base] if getattr(G, 'desc', None) else []
    seen_w = set()
    for a, b in list(base) + more + ([('lcg', i) for i in range(40)] if more else []):
        w = U.lcg_walk(G, start, 2 * n, b) if a == 'lcg' else U.rule_walk(G, start, n, a, b)
        if len(w) < n or w in seen_w:
            continue
        seen_w.add(w)
        for ck in ('absent', 'correct', 'wrong'):
            for indel, heap in ((False, 1000), (True, 1000), (True, 0)):
                clean_case(r, k, G, acc, start, w, ck, indel, heap)
        r.ctr['clean_walks'] += 1
        if (a, b) not in base:         # large orders: the other 25 rule walks and the 40 LCG-driven walks of 2n nt are checked clean only
            continue
        step = k + 2
        pos = list(range(k, n - k, step))
        for i in range(0, len(pos) - 1, 2):
            for gap in (1, 2, 3):
                if i + gap >= len(pos):
                    continue
                p1, p2 = pos[i], pos[i + gap]
                for e1 in U.single_edits(w, p1, p1 + 1)[::2]:
                    for e2 in U.single_edits(w, p2, p2 + 1)[1::3]:
                        s2 = U.apply_edit(U.apply_edit(w, e2), e1)
                        for chk in (None, O.vt(w, 3)):
                            any_case(r, k, G, acc, start, s2, chk, True)
                        any_case(r, k, G, acc, start, s2, None, False)
                        any_case(r, k, G, acc, start, s2, O.vt(w, 3), True, 2)
                        if k >= 3 and gap == 1:      # two broken windows back to back: every short check
                            for chk in ALL2:
                                any_case(r, k, G, acc, start, s2, chk, True)
        r.states += 1
        r.nontriv += 1
    r.maxi('long_strand_nt', n)


def many_errors(r, k, G, start, m):
    """Strands with m isolated errors and a check supplied: whatever path the repair takes, every
    candidate it hands back must reproduce the check."""
    from .C10 import long_strand, sparse_strand
    acc = U.A(G)
    for s in (long_strand(k, G, start, m), sparse_strand(k, G, start, m)[0]):
        for chk in (O.vt(s[::-1], 3), O.vt(s, 3), O.vt(s, 5)[:-1] + 'A'):
            for indel in (False, True):
                any_case(r, k, G, acc, start, s, chk, indel)
        any_case(r, k, G, acc, start, s, None, True)
    r.ctr['many_error_strands'] += 2
    r.states += 2


def _w_many(chunk):
    r = core.Res()
    for k, G, start, m in chunk:
        many_errors(r, k, G, start, m)
    return r


def _w_long(args):
    r = core.Res()
    k, G, start, n = args
    if isinstance(G, tuple):          # large order: built in the worker from its rule
        G = RP.big_graph(*G)
        live = sorted(O.has_arcs(G))
        start = live[0] if start == 'first' else live[-1] if start == 'last' else min(v for v in live if v >= len(G) // 2)
        r.ctr['large_order_jobs'] += 1
    long_graph(r, k, G, start, n)
    return r


def check_case(r, kind, case):
    G = RP.graph_of(case)
    acc = U.A(G)
    if case.get('clean'):
        good = O.vt(case['s'], 4)
        ck = 'absent' if case['chk'] is None else 'correct' if case['chk'] == good else 'wrong'
        clean_case(r, case['k'], G, acc, case['start'], case['s'], ck, case['indel'], case['heap'])
    else:
        any_case(r, case['k'], G, acc, case['start'], case['s'], case['chk'], case['indel'], case['heap'])


def _w(chunk):
    r = core.Res()
    n_by_k, items = chunk
    for k, G, t in items:
        if core.expired():
            r.caps.append('deadline reached inside a chunk')
            break
        live = sorted(O.has_arcs(G))
        starts = list(range(4)) if k == 1 else (live if len(live) <= 16 else live[:8] + live[-8:])
        check_graph(r, k, G, n_by_k[k], starts, thin=4 if k == 1 else 99)
    k, G, t = items[-1]
    r.sample(_LAST.get('case') or dict(RP.gcase(k, G), what='every walk and every ACGT string of length %d..%d' % (k, n_by_k[k])), 1)
    return r


def run(ctx):
    from ..observe import install
    import dsw
    install([dsw.spiderweb, dsw.graphized, dsw.operation, dsw.biofilter])
    q = ctx.quick
    n_by_k = {1: 4 if q else 5, 2: 4 if q else 6, 3: 4 if q else 6}
    fam = RP.k1_generated() + RP.k1_arc_family()
    pairs = list(itertools.combinations(range(4), 2))
    fam2 = RP.binary_graphs(2, pairs[:1] if q else pairs[:3])
    fam3 = RP.filter_graphs((2, 3), small=q)
    items = fam + fam2 + fam3
    ctx.pmap(_w, [(n_by_k, [c]) for c in items if c[0] >= 3] + [(n_by_k, c) for c in core.chunks_of([c for c in items if c[0] < 3], 4)])
    lg = RP.filter_graphs((2, 3, 4, 5), ts=(1, 2), small=True)
    jobs = []
    for k, G, t in lg[:(12 if q else 40)]:
        live = sorted(O.has_arcs(G))
        for st_ in (live[0], live[-1]):
            for n in ((40,) if q else (40, 120)):
                jobs.append((k, G, st_, n))
    # orders 7-9 (10): vertex numbers beyond 2^15 / 2^16, graphs built by mc/repair.big_graph
    for d in ((8, 3, 3, 5), (9, 3, 4, 5), (9, 2, 0, 9), (9, 3, 0, 9)) if q else ((7, 3, 3, 4), (7, 2, 0, 7), (8, 3, 3, 5), (8, 2, 0, 8), (9, 3, 4, 5), (9, 2, 0, 9), (9, 3, 0, 9), (10, 3, 4, 6), (10, 2, 0, 10)):
        for st_ in ('first', 'half', 'last'):
            jobs.append((d[0], d, st_, 60))
    ctx.pmap(_w_long, jobs)
    ctx.guard('large orders', ctx.res.ctr['large_order_jobs'] >= 6)
    from ..coder import LITERAL
    from .C03 import tiny_closed_sets
    mg = [(2, [list(x) for x in LITERAL], 1), (1, O.from_mask({0, 1}, 1), 0)]
    S3 = tiny_closed_sets(3)[0]
    mg.append((3, O.from_mask(O.gfp(S3, 3, 1), 3), 0))
    mj = [(k, G, st_, m) for k, G, st_ in mg for m in list(range(1, 12)) + [16, 17, 18, 20, 25, 33, 40, 64, 65]]
    ctx.pmap(_w_many, core.chunks_of(mj, 3))
    ctx.guard('many-error strands', ctx.res.ctr['many_error_strands'] > 50)
    ctx.bounds = {'many_errors': 'strands with m isolated errors, m in 1..11,16,17,18,20,25,33,40,64,65, with matching and non-matching checks',
                  'long_strands': '%d (graph, start) pairs - filter graphs of order 2-5 and rule-built graphs of order %s: clean rule walks of %s nt (60 nt at the large orders), and double edits on an offset grid' % (len(jobs), '8-9' if q else '7-10', '40' if q else '40/120'),
                  'lengths': 'k..n with n = %s' % n_by_k, 'graphs': {'order1': len(fam), 'order2_binary': len(fam2), 'filter_k2_k3': len(fam3)},
                  'clean_options': str(OPTS_A), 'checks': 'absent / correct / wrong (clean walks); absent, own, and the check of every single-substitution neighbour (arbitrary strings)'}
    ctx.rule = ('clean: one case = (graph, start, walk, check kind, indel, heap): result is exactly [walk] (or [] iff the supplied check '
                'disagrees) with zero detected errors; any-input: one case = (graph, start, ACGT string, check, indel): whenever '
                'repair returns, candidates are sorted, duplicate-free and reproduce the supplied check - counted separately for '
                'the fallback and the product return path; non-trivial = arbitrary-string cases')
    ctx.assumptions = ['return path identified by the third statistic (0 on the fallback path)']
    ctx.guard('both return paths taken', ctx.res.ctr['path_fallback'] > 100 and ctx.res.ctr['path_product'] > 100)
    ctx.guard('candidates under a check occur', ctx.res.ctr['with_check_candidates'] > 100)
    ctx.guard('clean walks', ctx.res.ctr['clean_walks'] > 1000)
