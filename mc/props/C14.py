"""C14 - the three graph representations are interchangeable."""
import itertools
import numpy as np
from .. import core, oracle as O, util as U
from ..observe import run as brun

PID = 'C14'


def ref_leaves(G, v, d):
    cur = [v]
    for _ in range(d):
        nxt = []
        for u in cur:
            nxt += [w for w in G[u] if w >= 0]
        cur = nxt
    return sorted(cur)


def check_graph(r, k, G, depths=(0, 1, 2, 3, 4), leaf_from=None):
    import dsw
    n = 4 ** k
    arcs = [(u, j) for u in range(n) for j in range(4) if G[u][j] >= 0]
    case = {'k': k, 'arcs': arcs}
    acc = U.A_reuse(G)
    before = acc.tobytes()
    r.states += 1
    r.evals += 1
    pre = 'C14|'
    live = O.has_arcs(G)
    # accessor -> latter map
    st, lm, _ = brun(dsw.accessor_to_latter_map, acc)
    r.trans += 1
    lm_ok = False
    if st != 'ok' or not isinstance(lm, dict):
        r.v(pre + 'accessor_to_latter_map|raised', 'graph', case, None, repr(lm))
    else:
        try:
            keys = {int(x) for x in lm.keys()}
            vals = {int(x): [int(y) for y in lm[x]] for x in lm}
        except Exception:
            keys, vals = None, None
        exp = {u: [w for w in G[u] if w >= 0] for u in live}
        if keys != live or vals != exp:
            r.v(pre + 'accessor_to_latter_map|not-the-live-successors-of-the-live-vertices', 'graph', case, exp, core._j(lm))
        else:
            lm_ok = True
    # latter map -> accessor
    if lm_ok:
        st, back, _ = brun(dsw.latter_map_to_accessor, lm, k)
        r.trans += 1
        if st != 'ok' or U.rows(back) != G:
            r.v(pre + 'latter_map_to_accessor|round-trip-differs', 'graph', case, G if n <= 16 else None,
                U.rows(back) if st == 'ok' and n <= 16 else repr(back)[:200])
    # the order in which a latter map lists the successors of a vertex carries no meaning
    if lm_ok and arcs:
        for variant in ('reversed', 'rotated'):
            lm2 = {}
            for a, b in lm.items():
                b = list(b)
                lm2[a] = b[::-1] if variant == 'reversed' else b[1:] + b[:1]
            st, back, _ = brun(dsw.latter_map_to_accessor, lm2, k)
            r.trans += 1
            if st != 'ok' or U.rows(back) != G:
                r.v(pre + 'latter_map_to_accessor|depends-on-successor-order-in-the-map', 'graph', dict(case, variant=variant), G if n <= 16 else None,
                    U.rows(back) if st == 'ok' and n <= 16 else repr(back)[:200])
    # accessor <-> matrix
    if k <= 5:
        st, mat, _ = brun(dsw.accessor_to_adjacency_matrix, acc)
        r.trans += 1
        if st != 'ok':
            r.v(pre + 'accessor_to_adjacency_matrix|raised', 'graph', case, None, repr(mat))
        else:
            M = np.asarray(mat)
            expM = np.zeros((n, n), dtype=int)
            for u, j in arcs:
                expM[u, G[u][j]] = 1
            if M.shape != (n, n) or not np.array_equal(M.astype(int), expM):
                r.v(pre + 'accessor_to_adjacency_matrix|ones-not-exactly-at-arcs', 'graph', case)
            else:
                for dt in ((None, np.int8, bool) if (k >= 4 or n <= 16) else (None,)):
                    st, back, _ = brun(dsw.adjacency_matrix_to_accessor, mat if dt is None else M.astype(dt))
                    r.trans += 1
                    if st != 'ok' or U.rows(back) != G:
                        r.v(pre + 'adjacency_matrix_to_accessor|round-trip-differs%s' % ('' if dt is None else '|matrix-dtype-' + np.dtype(dt).name), 'graph', case, None,
                            repr(back)[:200] if st != 'ok' else U.rows(back)[:16])
    # vertex listing
    st, vs, _ = brun(dsw.obtain_vertices, acc)
    r.trans += 1
    try:
        vl = [int(x) for x in vs]
    except Exception:
        vl = None
    if st != 'ok' or vl is None or sorted(vl) != sorted(live) or len(set(vl)) != len(vl):
        r.v(pre + 'obtain_vertices|not-the-vertices-with-arcs', 'graph', case, sorted(live), core._j(vs) if st == 'ok' else repr(vs))
    # leaf queries
    for v in (leaf_from if leaf_from is not None else range(n)):
        for d in depths:
            e = ref_leaves(G, v, d)
            st, a, _ = brun(dsw.obtain_leaf_vertices, v, d, accessor=acc)
            r.trans += 1
            r.evals += 1
            try:
                al = sorted(int(x) for x in a)
            except Exception:
                al = None
            if st != 'ok' or al != e:
                r.v(pre + 'obtain_leaf_vertices|accessor|differs-from-walk-end-points', 'graph', dict(case, v=v, d=d), e, al)
            if lm_ok:
                st, b, _ = brun(dsw.obtain_leaf_vertices, v, d, latter_map=lm)
                r.trans += 1
                try:
                    bl = sorted(int(x) for x in b)
                except Exception:
                    bl = None
                if st != 'ok' or bl != e:
                    r.v(pre + 'obtain_leaf_vertices|latter_map|differs-from-walk-end-points', 'graph', dict(case, v=v, d=d), e, bl)
            r.out.add((d, len(e)))
    if acc.tobytes() != before:
        r.v(pre + 'argument-modified', 'graph', case)
    if lm_ok:
        try:
            now = {int(x): [int(y) for y in lm[x]] for x in lm}
        except Exception:
            now = None
        if now != exp:
            r.v(pre + 'latter-map-argument-modified-by-a-query', 'graph', case, exp if n <= 16 else None, now if n <= 16 else None)
    degs = {len(O.outs(G, v)) for v in range(n)}
    if len(degs) > 2:
        r.nontriv += 1


def check_illegal(r, k, u, w, pattern, background=False):
    """Matrix with the illegal arc u -> w on top of the legal row pattern: must raise ValueError."""
    import dsw
    n = 4 ** k
    M = np.zeros((n, n), dtype=int)
    s = O.succ(u, k)
    for j in range(4):
        if pattern >> j & 1:
            M[u, s[j]] = 1
    M[u, w] = 1
    if background:
        # the complete graph around it: with one legal arc of the row moved (exactly 4n ones) or kept (4n+1)
        for v in range(n):
            if v != u:
                for x in O.succ(v, k):
                    M[v, x] = 1
    st, res, _ = brun(dsw.adjacency_matrix_to_accessor, M)
    r.trans += 1
    r.evals += 1
    r.states += 1
    r.nontriv += 1
    if not (st == 'exc' and type(res) is ValueError):
        r.v('C14|adjacency_matrix_to_accessor|illegal-arc-' + ('accepted' if st == 'ok' else 'raised-' + type(res).__name__),
            'illegal', {'k': k, 'u': u, 'w': w, 'pattern': pattern, 'background': background}, 'ValueError', repr(res)[:200])


def from_arcs(k, arcs):
    G = [[-1] * 4 for _ in range(4 ** k)]
    for u, j in arcs:
        G[u][j] = O.succ(u, k)[j]
    return G


def check_case(r, kind, case):
    if kind == 'graph':
        G = from_arcs(case['k'], case['arcs'])
        check_graph(r, case['k'], G)
    else:
        check_illegal(r, case['k'], case['u'], case['w'], case['pattern'], bool(case.get('background')))


def _w_g1(chunk):
    r = core.Res()
    lo, hi = chunk
    for code in range(lo, hi):
        if core.expired():
            r.caps.append('deadline reached inside a chunk')
            break
        check_graph(r, 1, O.k1graph(code))
    r.sample({'k': 1, 'arc_code': '0x%04x' % (hi - 1), 'accessor': O.k1graph(hi - 1)}, 1)
    return r


def binary_arcs(k, a, b):
    verts = [O.idx(''.join(p)) for p in itertools.product(O.NUC[a] + O.NUC[b], repeat=k)]
    return [(u, j) for u in verts for j in (a, b)]


def _w_bin(chunk):
    r = core.Res()
    k, a, b, lo, hi = chunk
    arcs = binary_arcs(k, a, b)
    verts = sorted({u for u, _ in arcs})
    for m in range(lo, hi):
        G = from_arcs(k, [arcs[i] for i in range(len(arcs)) if m >> i & 1])
        check_graph(r, k, G, depths=(0, 1, 2, 3, 4) if k == 2 else (1, 3), leaf_from=verts if k == 2 else verts[:3] + verts[-1:])
    r.sample({'k': k, 'alphabet': O.NUC[a] + O.NUC[b], 'arc_subset_code': hi - 1}, 1)
    return r


def _w_g4(chunk):
    r = core.Res()
    for rem in chunk:
        G = O.complete(2)
        for u, j in rem:
            G[u][j] = -1
        check_graph(r, 2, G, depths=(0, 1, 2, 3))
    r.sample({'k': 2, 'complete_minus_arcs': list(chunk[-1])}, 1)
    return r


def _w_ill(chunk):
    r = core.Res()
    for k, u, w, pats in chunk:
        for p in pats:
            check_illegal(r, k, u, w, p)
        if k == 2 or (u + w) % 7 == 0:
            for p in (7, 11, 13, 14, 15):       # three legal arcs + the illegal one = 4 ones in the row, or all four + it
                check_illegal(r, k, u, w, p, background=True)
    r.sample({'k': chunk[-1][0], 'illegal_arc': [chunk[-1][1], chunk[-1][2]], 'row_patterns': list(chunk[-1][3])}, 1)
    return r


def _w_big(chunk):
    r = core.Res()
    for k, G in chunk:
        live = sorted(O.has_arcs(G))
        check_graph(r, k, G, depths=(0, 1, k, k + 1), leaf_from=live[:2] + live[-2:])
        r.ctr['higher_order_graphs'] += 1
    return r


def big_graphs(quick):
    """Orders 4 and 5: filter coding graphs and valid graphs (reference construction), complete graphs."""
    from .C03 import filter_masks
    out = [(4, O.complete(4)), (5, O.complete(5))]
    for k, mask in filter_masks(4, 5):
        if not mask:
            continue
        out.append((k, O.from_mask(mask, k)))
        S = O.gfp(mask, k, 1)
        if S:
            G = O.from_mask(S, k)
            out.append((k, G))
            live = sorted(S)                      # and a non vertex-induced arc subset of it
            G2 = [list(r_) for r_ in G]
            for i, v in enumerate(live[::3]):
                o = O.outs(G2, v)
                if len(o) > 1:
                    G2[v][o[i % len(o)]] = -1
            out.append((k, G2))
    return out[::2] if quick else out


def run(ctx):
    from ..observe import install
    import dsw
    install([dsw.graphized, dsw.operation])
    ctx.pmap(_w_g1, core.ranges(1 << 16, 512))
    alph = list(itertools.combinations(range(4), 2))
    ch = [(2, a, b, 0, 256) for a, b in alph]
    for a, b in (alph[:1] if ctx.quick else alph):
        ch += [(3, a, b, lo, hi) for lo, hi in core.ranges(1 << 16, 1024)]
    ctx.pmap(_w_bin, ch)
    allarcs = [(u, j) for u in range(16) for j in range(4)]
    rems = [()] + [(x,) for x in allarcs] + list(itertools.combinations(allarcs, 2))
    ctx.pmap(_w_g4, core.chunks_of(rems, 70))
    ill = []
    for k in (2, 3):
        for u in range(4 ** k):
            s = set(O.succ(u, k))
            for w in range(4 ** k):
                if w not in s:
                    ill.append((k, u, w, range(16) if k == 2 or not ctx.quick else (0, 15, 5)))
    ctx.pmap(_w_ill, core.chunks_of(ill, 100))
    bg = big_graphs(ctx.quick)
    ctx.pmap(_w_big, [[g] for g in bg])
    ctx.bounds = {'orders_4_5': '%d graphs (complete, filter valid graphs, coding graphs, thinned arc subsets)' % len(bg), 'order1': 'all 65536 arc subsets', 'order2_binary': 'all 6 x 2^8 arc subsets',
                  'order3_binary': '%d x 2^16 arc subsets' % (1 if ctx.quick else 6), 'order2_complete_minus_arcs': '<= 2 (2081 graphs)',
                  'leaf_depths': [0, 4], 'illegal_single_arc_matrices': len(ill)}
    ctx.rule = ('one case = one arc subset (not necessarily vertex-induced): accessor->latter map->accessor and '
                'accessor->matrix->accessor identities, latter-map content, matrix content, vertex listing, depth-d leaf '
                'multisets from both representations against reference walks; or one illegal single-arc matrix (alone and on '
                'every legal row pattern) that must raise ValueError; non-trivial = graph with at least three different out-degrees')
    ctx.assumptions = ['leaf queries compared as multisets', 'orders above 3 only through an enumerated family of 4- and 5-order graphs']
