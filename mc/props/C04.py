"""C04 - encoding is total, dead-end free and tight on generated graphs."""
import multiprocessing as mp
import numpy as np
from .. import core, coder, gen, oracle as O, util as U
from ..observe import run as brun
from .C11 import filter_menu, filt_from

PID = 'C04'


def enc_case(r, k, G, acc, start, bits, fast, t, nlive, is_complete, T=None, tab=None):
    import dsw
    L = len(bits)
    mode = 'fast' if fast else 'normal'
    pre = 'C04|%s|t=%d|' % (mode, t)
    st, s, loops = brun(dsw.encode, np.array(bits, dtype=int), acc, start, is_faster=fast, shuffles=tab, lim=coder.budget(L, nlive))
    r.trans += 1
    r.evals += 1
    case = {'k': k, 'G': G if len(G) <= 64 else None, 'arcs': None if len(G) <= 64 else [(u, j) for u in range(len(G)) for j in range(4) if G[u][j] >= 0],
            'start': start, 'bits': ''.join(map(str, bits)), 'fast': fast, 't': t, 'table': T}
    if st == 'budget':
        r.v(pre + 'does-not-terminate', 'enc', case, 'a strand within %d loop iterations' % coder.budget(L, nlive), 'budget exceeded')
        return
    if st == 'exc':
        r.v(pre + 'raised-%s' % type(s).__name__, 'enc', case, 'a strand', repr(s)[:160])
        return
    if not isinstance(s, str):
        r.v(pre + 'returned-non-string', 'enc', case, 'a strand', repr(s)[:100])
        return
    r.maxi('encode_loops', loops)
    if len(s) > max(L, 1) * nlive:
        r.v(pre + 'more-steps-than-length-times-vertices', 'enc', case, max(L, 1) * nlive, len(s))
    if not O.is_walk(G, start, s):
        r.v(pre + 'strand-is-not-a-walk', 'enc', case, 'walk', s)
        return
    # degrees met along the real strand
    v, degs = start, []
    for c in s:
        degs.append(len(O.outs(G, v)))
        v = G[v][O.NUC.index(c)]
    if s and degs[-1] < 2:
        r.v(pre + 'last-nucleotide-carries-no-information', 'enc', case, 'out-degree >= 2 at the last step', degs[-5:])
    if not fast:
        val = O.bits_value(bits)
        prod = 1
        for d in degs[:-1]:
            prod *= d
        if s and prod > val:
            r.v(pre + 'product-of-out-degrees-before-last-step-exceeds-value', 'enc', case, val, prod)
        if val == 0 and s:
            r.v(pre + 'zero-message-emits-nucleotides', 'enc', case, '', s)
        if t >= 2 and len(s) > L:
            r.v(pre + 'longer-than-message-on-threshold-2-graph', 'enc', case, L, len(s))
        if is_complete and len(s) > (L + 1) // 2:
            r.v(pre + 'longer-than-half-message-on-complete-graph', 'enc', case, (L + 1) // 2, len(s))
    else:
        carried = sum(2 if d == 4 else 1 if d == 2 else 0 for d in degs)
        if carried not in (L, L + 1):
            r.v(pre + 'bits-carried-not-L-or-L+1', 'enc', case, [L, L + 1], carried)
    r.out.add((mode, len(s), L))


def check_graph(r, k, G, acc, t, Lmax, starts=None, tables=False):
    probs, longest = gen.graph_invariants(G, k)
    live = sorted(O.has_arcs(G))
    r.states += 1
    r.evals += 1
    for p in probs:
        r.v('C04|generated-graph|t=%d|%s' % (t, p), 'graph', {'k': k, 'G': G if len(G) <= 64 else None,
                                                                'arcs': None if len(G) <= 64 else [(u, j) for u in range(len(G)) for j in range(4) if G[u][j] >= 0], 't': t})
    if longest is not None:
        r.maxi('longest_out_degree_1_chain', longest)
    if probs:
        return      # encoding on such a graph can only repeat the finding (and, with a cycle, burn the budget of every call)
    mind = min((len(O.outs(G, v)) for v in live), default=0)
    if mind < t:
        r.v('C04|generated-graph|t=%d|out-degree-below-threshold' % t, 'graph', {'k': k, 'G': G if len(G) <= 64 else None, 'arcs': None, 't': t})
    degset = {len(O.outs(G, v)) for v in live}
    fastok = 3 not in degset
    is_complete = degset == {4} and len(live) == len(G)
    if len(degset) > 1:
        r.nontriv += 1
    r.ctr['graphs_t%d' % t] += 1
    for start in (live if starts is None else starts):
        for bits in U.all_bits(Lmax):
            enc_case(r, k, G, acc, start, bits, False, t, len(live), is_complete)
            if fastok:
                enc_case(r, k, G, acc, start, bits, True, t, len(live), is_complete)
    if tables and live:
        T = U.table_latin(len(G), 1)
        tab = np.array(T, dtype=int)
        for start in (live if starts is None else starts):
            for bits in U.all_bits(min(Lmax, 2)):
                enc_case(r, k, G, acc, start, bits, False, t, len(live), is_complete, T, tab)


def _graph_of(case):
    if case.get('G') is not None:
        return case['G']
    n = 4 ** case['k']
    G = [[-1] * 4 for _ in range(n)]
    for u, j in case['arcs']:
        G[u][j] = O.succ(u, case['k'])[j]
    return G


def check_case(r, kind, case):
    G = _graph_of(case)
    k = case['k']
    if kind == 'graph':
        check_graph(r, k, G, U.A(G), case['t'], 0)
    elif kind == 'gen':
        tag, G2, acc = gen.gen_from_mask(k, set(case['mask']), case['t'])
        if tag == 'ok':
            check_graph(r, k, G2, acc, case['t'], 3)
    else:
        live = O.has_arcs(G)
        degset = {len(O.outs(G, v)) for v in live}
        T = case.get('table')
        enc_case(r, k, G, U.A(G), case['start'], [int(c) for c in case['bits']], case['fast'], case['t'], len(live),
                 degset == {4} and len(live) == len(G), T, None if T is None else np.array(T, dtype=int))


def _w_gen2(chunk):
    """Generate on all order-2 masks of a range; return the distinct accessors (bytes) per threshold."""
    r = core.Res()
    lo, hi = chunk
    found = {}
    for m in range(lo, hi):
        mask = {i for i in range(16) if m >> i & 1}
        for t in (1, 2, 3, 4):
            tag, G, acc = gen.gen_from_mask(2, mask, t)
            r.trans += 1
            if tag == 'ok':
                key = (t, np.asarray(acc, dtype=np.int8).tobytes())
                if key not in found:
                    found[key] = m
            elif tag != 'ValueError':
                r.v('C04|generation|t=%d|%s' % (t, tag), 'gen', {'k': 2, 'mask': sorted(mask), 't': t})
    r.found = found
    return r


def _w_graphs(chunk):
    r = core.Res()
    Lmax, items = chunk
    for t, b in items:
        if core.expired():
            r.caps.append('deadline reached inside a chunk')
            break
        acc = np.frombuffer(b, dtype=np.int8).astype(int).reshape(16, 4)
        G = U.rows(acc)
        check_graph(r, 2, G, acc, t, Lmax, tables=True)
    t, b = items[-1]
    r.sample({'k': 2, 't': t, 'accessor': U.rows(np.frombuffer(b, dtype=np.int8).astype(int).reshape(16, 4)),
              'what': 'every retained start x all messages up to %d bits x modes' % Lmax}, 1)
    return r


def _w_filters(chunk):
    r = core.Res()
    Lmax, items = chunk
    for k, desc in items:
        f = filt_from(desc)
        for t in (1, 2, 3, 4):
            tag, G, acc, mask = gen.gen_from_filter(k, f, t)
            r.trans += 2
            if tag == 'ok':
                live = sorted(O.has_arcs(G))
                starts = live if len(live) <= 64 else sorted(set(live[:32] + live[-32:]))
                check_graph(r, k, G, acc, t, Lmax if k <= 3 else Lmax - 1, starts=starts)
                r.ctr['filter_graphs'] += 1
            elif tag != 'ValueError':
                r.v('C04|generation-from-filter|t=%d|%s' % (t, tag), 'genf', {'k': k, 'filter': core._j(desc), 't': t})
    r.sample({'k': items[-1][0], 'filter': core._j(items[-1][1]), 'thresholds': [1, 2, 3, 4]}, 1)
    return r


def _w_chain(chunk):
    """Generated graphs at higher orders whose trimming needs several late rounds of one vertex."""
    r = core.Res()
    for k, mask in chunk:
        for t in (1, 2):
            tag, G, acc = gen.gen_from_mask(k, mask, t)
            r.trans += 1
            if tag == 'ok':
                live = sorted(O.has_arcs(G))
                check_graph(r, k, G, acc, t, 2, starts=live[:3] + live[-3:])
                r.ctr['chain_graphs'] += 1
            elif tag != 'ValueError':
                r.v('C04|generation|t=%d|%s' % (t, tag), 'gen', {'k': k, 'mask': sorted(mask), 't': t})
    return r


def _w_longmsg(args):
    """Tightness on long messages (decimal numbers of 40-80 digits)."""
    name, k, G, start, bits, fast = args
    r = core.Res()
    live = O.has_arcs(G)
    degset = {len(O.outs(G, v)) for v in live}
    t = min(degset)
    enc_case(r, k, G, U.A(G), start, bits, fast, t, len(live), degset == {4} and len(live) == len(G))
    r.ctr['long_messages'] += 1
    r.maxi('long_message_bits', len(bits))
    return r


def run(ctx):
    from ..observe import install
    import dsw
    install([dsw.spiderweb, dsw.graphized, dsw.operation, dsw.biofilter])
    chunks = core.ranges(1 << 16, 512)
    name = '%s.%s' % (_w_gen2.__module__, _w_gen2.__name__)
    core._WORK[name] = _w_gen2
    with mp.get_context('fork').Pool(core.NPROC) as pool:
        got = dict(pool.imap_unordered(core._call, [(i, name, c) for i, c in enumerate(chunks)], 1))
    found = {}
    for i in range(len(chunks)):
        for key, m in (getattr(got[i], 'found', None) or {}).items():
            found.setdefault(key, m)
        got[i].found = None
        ctx.res.merge(got[i])
    graphs = sorted(found.keys())
    ctx.log('distinct generated order-2 graphs', len(graphs))
    ctx.cov['distinct_generated_order2_graphs'] = {str(t): sum(1 for g in graphs if g[0] == t) for t in (1, 2, 3, 4)}
    Lmax = 3 if ctx.quick else 5
    ctx.pmap(_w_graphs, [(Lmax, c) for c in core.chunks_of(graphs, 100)])
    ctx.log('order-2 graphs done', ctx.res.evals)
    menu = [m for m in filter_menu(4 if ctx.quick else 5) if m[0] >= 2 and (m[1][0] != 'local' or m[0] >= 3 or True)]
    menu = [m for m in menu if not (m[1][0] == 'table' and not m[1][1])]
    if ctx.quick:
        menu = [m for i, m in enumerate(menu) if m[0] <= 3 or m[1][0] != 'local' or (m[1][1][3] in (None, ['GC']) and m[1][1][2] in (None, ('0.4', '0.6'), ('0.25', '0.75'), ('0.5', '0.5')))]
    menu.sort(key=lambda x: -x[0])
    ctx.pmap(_w_filters, [(Lmax, c) for c in core.chunks_of(menu, 3)])
    from .C03 import chain_masks
    ctx.pmap(_w_chain, [[c] for c in chain_masks((3, 5, 6, 7) if ctx.quick else (3, 4, 5, 6, 7, 8))])
    jobs = []
    for name, k, G in coder.fixed_graphs():
        if name not in ('complete-2', 'complete-3', 'gc-balanced-literal', 'ternary-2', 'mixed-1234', 'mixed-order1', 'filter-3-k3-t1'):
            continue
        live = sorted(O.has_arcs(G))
        if not O.wellformed_start(G, live[0]):
            continue
        for L in (129, 131, 135, 200, 255, 257):
            for bits in coder.long_messages([L])[:5]:
                jobs.append((name, k, G, live[0], bits, False))
                if coder.no_deg3(G, O.reach(G, live[0])):
                    jobs.append((name, k, G, live[0], bits, True))
    ctx.pmap(_w_longmsg, jobs)
    ctx.guard('long messages', ctx.res.ctr['long_messages'] > 100)
    ctx.guard('chain graphs', ctx.res.ctr['chain_graphs'] > 10)
    ctx.bounds = {'long_messages': 'lengths 129,131,135,200,255,257 x 5 patterns on 6 fixed graphs (tightness and length bounds)',
                  'chain_masks': 'binary complete subgraph plus a dead-ending chain of 1,2,3,5 vertices at orders 3..7 (8), t=1,2',
                  'order2': 'every distinct graph generation returns over all 65536 masks x t=1..4, every retained start',
                  'messages_up_to': Lmax, 'filter_menu_configurations': len(menu), 'filter_k': [2, 4 if ctx.quick else 5]}
    ctx.rule = ('graph: one case = one distinct generated graph: shift-append arcs, no dead end, min out-degree >= t, no cycle among '
                'out-degree-1 vertices (=> encoding terminates for every message length); encode: one case = (graph, retained start, '
                'message, mode): terminates within the loop budget, len <= max(L,1)*|V|, no exception, strand is a walk, last '
                'nucleotide at a branching vertex, product of out-degrees before the last step <= value, len <= L on t>=2 graphs and '
                '<= ceil(L/2) on the complete graph, fast mode carries L or L+1 bits; non-trivial = graph with mixed out-degrees')
    ctx.assumptions = ['loop budget 64*(L+2)*(|V|+2)+4000 backward jumps is >= 10x the observed maximum (recorded under maxima)']
    ctx.guard('threshold-1 graphs with out-degree-1 vertices occur', ctx.cov['distinct_generated_order2_graphs']['1'] > 30000)
    ctx.guard('filter graphs', ctx.res.ctr['filter_graphs'] > 50)
