"""C03 - the coding graph is the largest closed subgraph, or a ValueError."""
import itertools
import numpy as np
from .. import core, oracle as O, util as U
from ..observe import run as brun

PID = 'C03'


_LAST = {}


def vdesc_set(vs, n):
    """Decode the returned vertex description: 0/1 (or bool) mask of length 4^k, or a strictly
    increasing index list.  Returns a set or None when it is neither."""
    try:
        a = np.asarray(vs)
        if a.ndim != 1:
            return None
        vals = [int(x) for x in a.tolist()]
        if a.dtype == bool or (len(vals) == n and all(x in (0, 1) for x in vals)):
            if len(vals) != n:
                return None
            return {i for i, x in enumerate(vals) if x}
        if any(not (0 <= x < n) for x in vals):
            return None
        if any(vals[i] >= vals[i + 1] for i in range(len(vals) - 1)):
            return None
        return set(vals)
    except Exception:
        return None


def gen(k, mask, t, dtype='bool', lim=None):
    """Run the real generator.  Returns (tag, set-or-None, accessor rows or None, detail)."""
    import dsw
    n = 4 ** k
    m = np.zeros(n, dtype=bool if dtype == 'bool' else int)
    if mask:
        m[sorted(mask)] = 1
    before = m.tobytes()
    st, res, loops = brun(dsw.connect_coding_graph, observed_length=k, vertices=m, threshold=t,
                          lim=lim or (4000 * n + 20000))
    unchanged = (m.tobytes() == before)
    if st == 'budget':
        return 'budget', None, None, unchanged
    if st == 'exc':
        return ('ValueError' if type(res) is ValueError else 'exc:' + type(res).__name__), None, None, unchanged
    try:
        vs, acc = res
        G = U.rows(acc)
    except Exception:
        return 'badreturn', None, None, unchanged
    return 'ok', vs, G, unchanged


def check_mask(r, k, mask, t, dtype='bool', expS=None, lm=False):
    n = 4 ** k
    S = O.gfp(mask, k, t) if expS is None else expS
    case = {'k': k, 'mask': sorted(mask), 't': t, 'dtype': dtype}
    pre = 'C03|k=%s|t=%d|' % (k if k <= 2 else '>=3', t)
    tag, vs, G, unchanged = gen(k, mask, t, dtype)
    r.trans += 1
    r.evals += 1
    code = None
    if not unchanged:
        r.v(pre + 'input-mask-modified', 'mask', case)
    if tag == 'budget':
        r.v(pre + 'does-not-terminate', 'mask', case, sorted(S), 'loop budget exceeded')
    elif not S:
        if tag != 'ValueError':
            r.v(pre + 'empty-result-but-' + ('returned' if tag == 'ok' else tag), 'mask', case, 'ValueError',
                tag if tag != 'ok' else {'vertices': core._j(vs)})
        code = -1 if tag == 'ValueError' else -2
    else:
        if tag == 'ValueError':
            r.v(pre + 'ValueError-on-nonempty-result', 'mask', case, sorted(S), tag)
        elif tag != 'ok':
            r.v(pre + 'raised-' + tag, 'mask', case, sorted(S), tag)
        else:
            expG = O.from_mask(S, k)
            if G != expG:
                got = sorted(O.has_arcs(G)) if len(G) == n else None
                r.v(pre + ('graph-too-large' if got and set(got) > S else 'graph-too-small' if got is not None and set(got) < S
                           else 'wrong-graph'), 'mask', case, sorted(S), got)
            vset = vdesc_set(vs, n)
            if vset is None or vset != O.has_arcs(G):
                r.v(pre + 'vertex-description-differs-from-vertices-with-arcs', 'mask', case, sorted(O.has_arcs(G)), core._j(vs))
            code = sum(1 << v for v in O.has_arcs(G)) if len(G) == n and n <= 64 else None
    _LAST['case'] = {'k': k, 'mask': sorted(mask)[:64], 't': t, 'dtype': dtype, 'expected': sorted(S)[:64] if S else 'ValueError', 'observed': tag}
    r.out.add((t, len(S)))
    if lm and t >= 2 and mask:
        check_lm(r, k, mask, t, S, case, pre)
    return code


def check_lm(r, k, mask, t, S, case, pre):
    """Trimming the latter map of the valid graph to the same threshold gives the same graph."""
    import dsw
    m = np.zeros(4 ** k, dtype=bool)
    m[sorted(mask)] = True
    st, acc, _ = brun(dsw.connect_valid_graph, observed_length=k, vertices=m)
    if st != 'ok':
        return
    st, lmap, _ = brun(dsw.accessor_to_latter_map, acc)
    if st != 'ok':
        return
    st, a2, _ = brun(dsw.latter_map_to_accessor, lmap, k, threshold=t, lim=400 * (4 ** k) ** 2 + 20000)
    r.trans += 3
    r.evals += 1
    if st != 'ok':
        r.v(pre + 'latter-map-trimming-raised', 'mask', dict(case, lm=True), sorted(S), repr(a2))
        return
    if U.rows(a2) != O.from_mask(S, k):
        r.v(pre + 'latter-map-trimming-differs', 'mask', dict(case, lm=True), sorted(S), sorted(O.has_arcs(U.rows(a2))))


def check_lm_history(r, k, mask):
    """One latter-map object trimmed repeatedly (thresholds 4,3,2, then 3 again): every call must give
    the graph of that threshold, and the caller's map must stay as it was."""
    import dsw, copy
    m = np.zeros(4 ** k, dtype=bool)
    m[sorted(mask)] = True
    st, acc, _ = brun(dsw.connect_valid_graph, observed_length=k, vertices=m)
    if st != 'ok':
        return
    st, lmap, _ = brun(dsw.accessor_to_latter_map, acc)
    if st != 'ok':
        return
    before = {int(a): [int(x) for x in b] for a, b in lmap.items()}
    case = {'k': k, 'mask': sorted(mask)}
    for i, t in enumerate((4, 3, 2, 3)):
        S = O.gfp(mask, k, t)
        st, a2, _ = brun(dsw.latter_map_to_accessor, lmap, k, threshold=t, lim=400 * (4 ** k) ** 2 + 20000)
        r.trans += 1
        r.evals += 1
        if st != 'ok' or U.rows(a2) != O.from_mask(S, k):
            r.v('C03|k=%s|latter-map-trimming-differs-on-reused-map|call-%d' % (k if k <= 2 else '>=3', i + 1), 'lmhist', case, sorted(S),
                sorted(O.has_arcs(U.rows(a2))) if st == 'ok' else repr(a2))
        now = {int(a): [int(x) for x in b] for a, b in lmap.items()}
        if now != before:
            r.v('C03|k=%s|latter-map-argument-modified-by-trimming' % (k if k <= 2 else '>=3'), 'lmhist', case)
            lmap = copy.deepcopy(before)
    r.ctr['lm_histories'] += 1


def check_case(r, kind, case):
    if kind == 'lmhist':
        check_lm_history(r, case['k'], set(case['mask']))
        return
    if kind == 'mask':
        check_mask(r, case['k'], set(case['mask']), case['t'], case.get('dtype', 'bool'), lm=bool(case.get('lm')))
    elif kind == 'mono':
        k, t = case['k'], case['t']
        a = check_mask(r, k, set(case['mask']), t)
        b = check_mask(r, k, set(case['mask']) - {case['minus']}, t)
        if a is not None and b is not None and a >= 0 and b >= 0 and (b & ~a):
            r.v('C03|k=%d|t=%d|smaller-mask-larger-graph' % (k, t), 'mono', case)
    elif kind == 'oracle':
        pass


def _w_g2(chunk):
    """All order-2 masks in [lo,hi) x t x dtype; returns result codes for the lattice check."""
    r = core.Res()
    lo, hi = chunk
    codes = {}
    for mcode in range(lo, hi):
        if core.expired():
            r.caps.append('deadline reached inside a chunk')
            break
        mask = {i for i in range(16) if mcode >> i & 1}
        for t in (1, 2, 3, 4):
            S = O.gfp(mask, 2, t)
            c = check_mask(r, 2, mask, t, 'bool', S, lm=True)
            check_mask(r, 2, mask, t, 'int', S)
            codes[(mcode, t)] = c
            if t == 4 and mask and (len(mask) >= 9 or mcode % 5 == 0):
                check_lm_history(r, 2, mask)
            r.states += 1
            if len(S) != len(mask):
                r.nontriv += 1
            if t >= 2 and mask:
                r.ctr['rounds_%d' % min(O.trimming_rounds(mask, 2, t), 6)] += 1
            r.ctr['empty_result' if not S else 'nonempty_result'] += 1
    r.mx['codes'] = 0
    r.samples = [_LAST.get('case')]
    r.codes = codes
    return r


def _w_list(chunk):
    r = core.Res()
    for k, mask, ts in chunk:
        if core.expired():
            r.caps.append('deadline reached inside a chunk')
            break
        for t in ts:
            S = O.gfp(mask, k, t)
            check_mask(r, k, mask, t, 'bool', S, lm=(k <= 3))
            r.states += 1
            if len(S) != len(mask):
                r.nontriv += 1
            r.ctr['empty_result' if not S else 'nonempty_result'] += 1
            if t >= 2 and mask:
                r.ctr['rounds_%d' % min(O.trimming_rounds(mask, k, t), 6)] += 1
    k, mask, ts = chunk[-1]
    r.sample({'k': k, 'mask': sorted(mask)[:40], 'thresholds': list(ts)}, 1)
    return r


def _w_oracle(chunk):
    """Self-validation of gfp against the literal definition (union of all closed subsets)."""
    r = core.Res()
    for k, mask in chunk:
        for t in (1, 2, 3, 4):
            a, b = O.gfp(mask, k, t), O.gfp_brute(mask, k, t)
            r.evals += 1
            if a != b:
                r.ctr['ORACLE_MISMATCH'] += 1
                r.v('C03|ORACLE|gfp-differs-from-brute-force', 'oracle', {'k': k, 'mask': sorted(mask), 't': t}, sorted(b), sorted(a))
            r.ctr['oracle_selfcheck'] += 1
    return r


def binary_masks(k, alphabets):
    out = []
    for a, b in alphabets:
        verts = [O.idx(''.join(p)) for p in itertools.product(O.NUC[a] + O.NUC[b], repeat=k)]
        for m in range(1 << len(verts)):
            out.append((k, {verts[i] for i in range(len(verts)) if m >> i & 1}))
    return out


def tiny_closed_sets(k):
    """Vertex sets whose threshold-1 coding graph is tiny compared with 4^k: X^k plus the rotations of
    X^(k-1)Y (a loop with a detour), the 2-cycle (XY)* with a detour, each also with dead-end clutter."""
    out = []
    for x in range(4):
        for y in range(4):
            if x == y:
                continue
            X, Y = O.NUC[x], O.NUC[y]
            w = X * (k - 1) + Y
            S = {O.idx(X * k)} | {O.idx(w[i:] + w[:i]) for i in range(k)}
            out.append(S)
            out.append(S | {O.idx(Y * k), O.idx(Y * (k - 1) + X)} | {(v * 4 + 3) % 4 ** k for v in list(S)[:2]})
            a = (X + Y) * k
            cyc = {O.idx(a[:k]), O.idx(a[1:k + 1])}
            # detour: ...XYX -> YXY Y? build the closed walk XY..XY + Y then back
            det = a[:k - 1] + Y if a[k - 2] == X else a[:k - 1] + X
            walk = det
            Sd = set(cyc)
            cur = det
            for _ in range(2 * k + 2):
                Sd.add(O.idx(cur))
                nxt = cur[1:] + (X if cur[-1] == Y else Y)
                cur = nxt
                if O.idx(cur) in cyc:
                    break
            out.append(Sd)
    return out


def chain_masks(ks):
    """Binary complete subgraph over {X,Y} plus a chain X^k -> X^(k-1)Z -> ... of c single-successor
    vertices ending in a dead end: trimming removes exactly one vertex per round for c rounds, a
    vanishing fraction of the 4^k vertices at higher orders."""
    out = []
    for k in ks:
        for x, y, z in ((0, 1, 2), (3, 2, 0)):
            X, Y, Z = O.NUC[x], O.NUC[y], O.NUC[z]
            base = {O.idx(''.join(p)) for p in itertools.product(X + Y, repeat=k)}
            for c in (1, 2, 3, 5):
                chain, cur = set(), X * k
                for _ in range(c):
                    cur = cur[1:] + Z
                    chain.add(O.idx(cur))
                out.append((k, base | chain))
    return out


def long_chain_masks(ks, lengths):
    """Binary complete subgraph plus a separate induced (chord-free) path of c vertices that ends in a
    dead end, grown backwards by a deterministic greedy rule: trimming needs c rounds, one vertex each
    (c = 63..300 and more - far beyond what the order-2/3 universes can ask for)."""
    out = []
    for k in ks:
        n = 4 ** k
        base = {O.idx(''.join(p)) for p in itertools.product('AC', repeat=k)}
        lat = lambda v: [(v * 4 + j) % n for j in range(4)]
        frm = lambda v: [v // 4 + j * (n // 4) for j in range(4)]
        key = lambda p: (p * 2654435761) % (2 ** 32)
        heads = sorted((v for v in range(n) if v not in base and not any(w in base for w in lat(v)) and v not in lat(v)), key=key)
        for target in lengths:
            best = []
            for head in heads[:40]:
                chain, used, succs = [head], {head}, set(lat(head))
                while len(chain) < target:
                    opts = [p for p in frm(chain[0]) if p not in base and p not in used and p not in succs
                            and [w for w in lat(p) if w in used or w in base or w == p] == [chain[0]]]
                    if not opts:
                        break
                    p = min(opts, key=key)
                    chain.insert(0, p)
                    used.add(p)
                    succs.update(lat(p))
                if len(chain) > len(best):
                    best = chain
                if len(best) >= target:
                    break
            if len(best) >= target:
                out.append((k, base | set(best)))
    return out


def filter_masks(kmin, kmax):
    """The experiment filters scaled to order k (reference predicate, no dsw)."""
    cut = ["AGCT", "GACGC", "CAGCAG", "GATATC", "GGTACC", "CTGCAG", "GAGCTC", "GTCGAC", "AGTACT", "ACTAGT", "GCATGC", "AGGCCT", "TCTAGA"]
    nano = ["AGA", "GAG", "CTC", "TCT"]
    F = [(2, ('0.5', '0.5'), cut), (1, None, None), (None, ('0.1', '0.3'), None), (2, ('0.4', '0.6'), nano),
         (2, ('0.4', '0.6'), None), (None, ('0.5', '0.7'), None), (3, ('0.4', '0.6'), None), (4, ('0.4', '0.6'), None),
         (3, None, None), (4, None, None), (5, None, None), (6, None, None)]
    out = []
    for k in range(kmin, kmax + 1):
        for run, gc, mot in F:
            cfg = (k, None if run is None else min(run, k - 1), gc, None if mot is None else [m for m in mot if len(m) <= k])
            c = O.compile_cfg(cfg)
            mask = {v for v in range(4 ** k) if O.seq_ok_c(c, O.kmer(v, k))}
            out.append((k, mask))
    return out


def run(ctx):
    from ..observe import install
    import dsw
    install([dsw.spiderweb, dsw.graphized, dsw.operation])
    # 0. oracle self-validation
    sv = [(1, {i for i in range(4) if m >> i & 1}) for m in range(16)]
    lim = 5 if ctx.quick else 7
    for d in range(0, lim + 1):
        for keep in itertools.combinations(range(16), d):
            sv.append((2, set(keep)))
    ctx.pmap(_w_oracle, core.chunks_of(sv, 200))
    # 1. the complete order-2 mask lattice
    tot = core.Res()
    chunks = core.ranges(1 << 16, 512)
    name = '%s.%s' % (_w_g2.__module__, _w_g2.__name__)
    codes = {}
    # pmap merges Res; result codes ride along on the Res objects, so collect them here
    import multiprocessing as mp
    core._WORK[name] = _w_g2
    with mp.get_context('fork').Pool(core.NPROC) as pool:
        got = dict(pool.imap_unordered(core._call, [(i, name, c) for i, c in enumerate(chunks)], 1))
    for i in range(len(chunks)):
        codes.update(getattr(got[i], 'codes', None) or {})
        got[i].codes = None
        tot.merge(got[i])
    ctx.res.merge(tot)
    # lattice-edge monotonicity on the implementation's own answers
    edges = 0
    for t in (1, 2, 3, 4):
        for m in range(1 << 16):
            a = codes.get((m, t))
            if a is None or a < 0:
                a_set = 0 if a is not None and a == -1 else None
            else:
                a_set = a
            if a_set is None:
                continue
            for i in range(16):
                if m >> i & 1:
                    b = codes.get((m & ~(1 << i), t))
                    if b is None or b == -2:
                        continue
                    b_set = 0 if b == -1 else b
                    edges += 1
                    if b_set & ~a_set:
                        ctx.res.v('C03|k=2|t=%d|smaller-mask-larger-graph' % t, 'mono',
                                  {'k': 2, 'mask': [j for j in range(16) if m >> j & 1], 'minus': i, 't': t})
    ctx.res.evals += edges
    ctx.cov['lattice_edges_checked_for_monotonicity'] = edges
    # 2. order 1, binary embeddings at order 3 (and 4), deletion-bounded masks at order 3
    fam = [(1, {i for i in range(4) if m >> i & 1}, (1, 2, 3, 4)) for m in range(16)]
    alph = list(itertools.combinations(range(4), 2))
    fam += [(k, m, (1, 2)) for k, m in binary_masks(3, alph)]
    fam += [(k, m, (1, 2)) for k, m in binary_masks(4, alph[:1] if ctx.quick else alph)]
    for d in range(0, 3 if ctx.quick else 4):
        for rem in itertools.combinations(range(64), d):
            fam.append((3, set(range(64)) - set(rem), (1, 2, 3, 4) if d <= 2 else (3, 4)))
    # very sparse masks at order 5: single vertices (never closed -> ValueError) and the smallest closed sets
    for v in range(0, 4 ** 5, 1 if not ctx.quick else 3):
        fam.append((5, {v}, (1, 2)))
    for a, b in alph:
        verts = {O.idx(''.join(p)) for p in itertools.product(O.NUC[a] + O.NUC[b], repeat=5)}
        fam.append((5, verts, (1, 2, 3)))
        fam.append((5, verts - {min(verts)}, (1, 2)))
    for k, S in chain_masks((3, 5, 6, 7) if ctx.quick else (3, 4, 5, 6, 7, 8)):
        fam.append((k, S, (1, 2)))
    lc = long_chain_masks((6,) if ctx.quick else (6, 7), (63, 64, 65, 66, 130, 300) if ctx.quick else (63, 64, 65, 66, 130, 257, 300, 1030))
    ctx.guard('long dead-end chains', len(lc) >= 6)
    for k, S in lc:
        fam.append((k, S, (1, 2)))
    for k in (4, 5, 6):
        for S in tiny_closed_sets(k):
            fam.append((k, S, (1, 2)))
    fm = filter_masks(3, 6 if ctx.quick else 8)
    fam += [(k, m, (1, 2, 3, 4)) for k, m in fm if m]
    fam.sort(key=lambda x: -len(x[1]) * (4 ** x[0]))
    ctx.pmap(_w_list, [[f] for f in fam if 4 ** f[0] >= 4096] + core.chunks_of([f for f in fam if 4 ** f[0] < 4096], 60))
    ctx.bounds = {'long_dead_end_chains': '%d masks at order %s: binary core plus an induced dead-end path of 63..%d vertices (one trimming round per vertex)' % (len(lc), '6' if ctx.quick else '6-7', 300 if ctx.quick else 1030), 'order2_masks': 'all 65536 x t 1..4 x {bool,int}', 'order1_masks': 'all 16',
                  'binary_embedding_masks': 'k=3: 6 x 2^8; k=4: %s x 2^16' % (1 if ctx.quick else 6),
                  'order3_complete_minus_at_most': 2 if ctx.quick else 3,
                  'experiment_filter_masks_k': [3, 6 if ctx.quick else 8], 'oracle_selfcheck_masks': len(sv)}
    ctx.rule = ('one case = (order, vertex mask, threshold, dtype): the real connect_coding_graph against the greatest '
                'fixed point; accessor compared entry by entry, vertex description, ValueError iff empty, input mask '
                'bytes, latter-map trimming (t>=2), monotonicity on every edge of the order-2 subset lattice; states = '
                'distinct (mask, t); non-trivial = generation trims at least one vertex or raises')
    ctx.assumptions = ['reference gfp is the statement\'s definition; self-validated against the union of all closed subsets '
                       'on every order-1 mask and every order-2 mask with at most %d vertices' % lim,
                       'vertex description accepted as 0/1 mask or strictly increasing index list']
    ctx.guard('oracle self-check ran', ctx.res.ctr['oracle_selfcheck'] > 1000 and ctx.res.ctr['ORACLE_MISMATCH'] == 0)
    ctx.guard('ValueError path exercised', ctx.res.ctr['empty_result'] > 1000)
    ctx.guard('multi-round trimming occurs', ctx.res.ctr['rounds_3'] + ctx.res.ctr['rounds_4'] + ctx.res.ctr['rounds_5'] + ctx.res.ctr['rounds_6'] > 0)
