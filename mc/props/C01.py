"""C01 - encode then decode returns the original message."""
from .. import core, coder, oracle as O

PID = 'C01'


def check_case(r, kind, case):
    if kind in ('rt', 'vt'):
        coder.replay_rt(r, 'C01', case)
    elif kind == 'tabmod':
        G = case['G']
        coder.explore_class(r, 'C01', case['k'], G, case['start'], O.reach(G, case['start']), [([case['table']], case['Lmax'], True)])
    elif kind == 'diff':
        coder.diff_case(r, 'C01', case['k'], case['G'], case['G2'], case['start'], [int(c) for c in case['bits']])


def run(ctx):
    from ..observe import install
    import dsw
    install([dsw.spiderweb, dsw.operation])
    coder.run_universes(ctx, 'C01')
    ctx.rule = ('one case = (graph class, start, table, mode, message): real encode then real decode with the same arguments must '
                'return the message bit for bit; per distinct strand additionally with a VT check of length 1,2,3,5 produced at '
                'encoding and supplied at decoding; differential run with garbage in unreachable rows; distinct by construction '
                '(canonical classes); states = cases; non-trivial = message with at least one 1 bit (non-empty strand)')
    ctx.assumptions = ['well-formedness decided by the reference (every reachable vertex has an arc and reaches a branching vertex)',
                       'the check depends only on the strand, so check lengths are crossed with distinct strands per worker, not with every case',
                       'tables beyond the three fixed ones only on classes with <= 2 reachable vertices (quick) / one deviant vertex (thorough)']
    ctx.guard('well-formed classes explored', ctx.res.ctr['g1_wellformed'] > 100000)
    ctx.guard('all out-degree mixtures met', len(ctx.res.out) >= 14)
