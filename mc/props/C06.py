"""C06 - decoding accepts exactly the strands that are walks of the graph."""
import itertools
import numpy as np
from .. import core, coder, oracle as O, util as U
from ..observe import run as brun

PID = 'C06'
_LAST = {}
SYMS = ['A', 'C', 'G', 'T', 'N', 'a', ' ', 'é', '\n']


def dec_case(r, k, G, acc, start, s, L, fast=False, chk=None, T=None, tab=None, walk=None):
    """One decode call against the acceptance oracle."""
    import dsw
    if walk is None:
        walk = O.is_walk(G, start, s)
    accept = walk
    if chk is not None and accept:
        accept = (O.vt(s, len(chk)) == chk)
    st, got, _ = brun(dsw.decode, s, L, acc, start, is_faster=fast, vt_check=chk, shuffles=tab,
                      lim=coder.budget(L + len(s), len(G)))
    r.trans += 1
    r.evals += 1
    mode = 'fast' if fast else 'normal'
    pre = 'C06|%s|%s|' % (mode, 'check' if chk is not None else 'nocheck')
    case = None
    _LAST['case'] = {'k': k, 'accessor': G if len(G) <= 16 else 'order-%d graph' % k, 'start': start, 'string': s if len(s) <= 60 else s[:57] + '...', 'bit_length': L,
                     'mode': mode, 'check': chk, 'table': T is not None, 'expected': 'array of %d bits' % L if accept else 'ValueError'}
    if accept:
        ok = False
        if st == 'ok':
            try:
                a = np.asarray(got)
                ok = a.ndim == 1 and len(a) == L
            except Exception:
                ok = False
        if not ok:
            case = {'k': k, 'G': G, 'start': start, 's': s, 'L': L, 'fast': fast, 'chk': chk, 'table': T}
            what = ('walk-rejected-with-%s' % type(got).__name__) if st == 'exc' else 'walk-budget' if st == 'budget' else 'result-not-of-requested-length'
            r.v(pre + what, 'dec', case, 'array of %d bits' % L, repr(got)[:120])
        r.ctr['accepted'] += 1
    else:
        if not (st == 'exc' and type(got) is ValueError):
            case = {'k': k, 'G': G, 'start': start, 's': s, 'L': L, 'fast': fast, 'chk': chk, 'table': T}
            why = 'non-walk' if not walk else 'check-mismatch'
            what = (why + '-accepted') if st == 'ok' else (why + '-raised-%s' % type(got).__name__) if st == 'exc' else why + '-budget'
            r.v(pre + what, 'dec', case, 'ValueError', repr(got)[:120])
        r.ctr['rejected'] += 1


def shortest_prefixes(G, start):
    pre = {start: ''}
    q = [start]
    while q:
        nq = []
        for u in q:
            for j in range(4):
                w = G[u][j]
                if w >= 0 and w not in pre:
                    pre[w] = pre[u] + O.NUC[j]
                    nq.append(w)
        q = nq
    return pre


def automaton_strings(G, start, cont, extra_prefix_len):
    """Strings that drive every transition of the walk automaton (incl. rejection and what follows).
    Returns [(string, is_base)] where base strings are prefix+symbol without continuation."""
    pre = shortest_prefixes(G, start)
    short = set(pre.values())
    prefixes = set(short)
    if extra_prefix_len:
        prefixes |= set(U.walks_upto(G, start, extra_prefix_len))
    base = {''}
    for p in prefixes:
        for c in SYMS:
            base.add(p + c)
    out = set()
    if cont == 1:
        tails = ['A', 'T']
    else:
        tails = [''.join(q) for n in range(1, cont + 1) for q in itertools.product('ACGT', repeat=n)]
    for p in short:
        for c in SYMS:
            if O.is_walk(G, start, p + c):
                continue        # what follows an accepted step is another (vertex, symbol) transition, covered from that vertex
            for t in tails:
                out.add(p + c + t)
    out -= base
    key = lambda x: (len(x), x)
    return [(x, True) for x in sorted(base, key=key)] + [(x, False) for x in sorted(out, key=key)]


def carried_bits(G, start, s):
    """Bits carried in fast mode by the longest prefix of s that is a walk."""
    v, b = start, 0
    for c in s:
        j = O.NUC.find(c)
        if j < 0 or len(c) != 1 or G[v][j] < 0:
            break
        d = len(O.outs(G, v))
        b += 2 if d == 4 else 1 if d == 2 else 0
        v = G[v][j]
    return b


def bits_needed(s):
    return 2 * len(s) + 2


def check_class(r, k, G, start, cont, extra, fast_ok, quick=True, brute=0):
    acc = U.A_reuse(G)
    strings = automaton_strings(G, start, cont, extra)
    if brute:
        have = {x for x, _ in strings}
        strings += [(x, False) for x in U.all_strings(brute, 'ACGTN') if x not in have]
    T = U.table_latin(len(G), 1)
    tab = np.array(T, dtype=int)
    for s, is_base in strings:
        w = O.is_walk(G, start, s)
        need = bits_needed(s)
        dec_case(r, k, G, acc, start, s, need, walk=w)
        if is_base or not quick:
            for L in (((0, need + 3) if len(s) <= 1 else (need + 3,) if len(s) <= 2 else ()) if quick else (0, 1, need + 3)):
                dec_case(r, k, G, acc, start, s, L, walk=w)
            # acceptance must not depend on a digit-shuffle table either
            if len(s) <= 2 or not quick:
                dec_case(r, k, G, acc, start, s, need, T=T, tab=tab, walk=w)
                if fast_ok and (len(s) <= 1 or not quick):
                    dec_case(r, k, G, acc, start, s, need, fast=True, T=T, tab=tab, walk=w)
        if fast_ok:
            dec_case(r, k, G, acc, start, s, need, fast=True, walk=w)
            # tight width: exactly the bits carried by the walkable prefix ("no more bits than requested")
            tight = carried_bits(G, start, s)
            if tight != need and (is_base or not quick or not w):
                dec_case(r, k, G, acc, start, s, tight, fast=True, walk=w)
        if len(s) <= (2 if quick else 3) and (is_base or not quick):
            ok_chars = all(c in 'ACGT' for c in s)
            if ok_chars:
                good = O.vt(s, 2)
                nb = O.vt((s[:-1] + ('A' if s[-1] != 'A' else 'C')) if s else 'C', 2)
                chks = [good, nb]
                if not quick:
                    bad = O.vt(s, 3)
                    chks.append(bad[:-1] + ('C' if bad[-1] != 'C' else 'G'))
                for chk in chks:
                    dec_case(r, k, G, acc, start, s, need, chk=chk, walk=w)
                    if fast_ok:
                        dec_case(r, k, G, acc, start, s, need, fast=True, chk=chk, walk=w)
                if len(s) <= 1:      # a check of any length: far beyond 64-bit arithmetic
                    for n_ in (33, 40):
                        dec_case(r, k, G, acc, start, s, need, chk=O.vt(s, n_), walk=w)
                        dec_case(r, k, G, acc, start, s, need, chk=O.vt(s + 'C', n_), walk=w)
            elif len(s) <= 1 or not quick:
                dec_case(r, k, G, acc, start, s, need, chk='AC', walk=w)
    r.states += len(strings)
    r.nontriv += sum(1 for s, _ in strings if s)
    return len(strings)


def edits_class(r, k, G, start, n, fast_ok):
    """Fault-sequence reading: all single edits of every walk up to length n."""
    acc = U.A(G)
    seen = set()
    for w in U.walks_upto(G, start, n):
        for e in U.single_edits(w):
            s = e[3]
            if s in seen:
                continue
            seen.add(s)
            dec_case(r, k, G, acc, start, s, bits_needed(s))
            chk = O.vt(w, 3)
            dec_case(r, k, G, acc, start, s, bits_needed(s), chk=chk)
            if fast_ok:
                dec_case(r, k, G, acc, start, s, bits_needed(s), fast=True)
    r.states += len(seen)
    r.nontriv += len(seen)
    r.ctr['edited_walk_strings'] += len(seen)


def long_class(r, k, G, start, n):
    """Long strands on larger graphs: rule-generated walks of n nucleotides and every single edit of
    them (accepted iff still a walk), in both modes, with and without a table."""
    acc = U.A(G)
    R = O.reach(G, start)
    fast_ok = coder.no_deg3(G, R)
    T = U.table_latin(len(G), 1)
    tab = np.array(T, dtype=int)
    seen = set()
    for a, b in ((7, 3), (1, 0)):
        w = U.rule_walk(G, start, n, a, b)
        if len(w) < n:
            continue
        cands = [w] + [e[3] for e in U.single_edits(w)] + [w[:i] + 'N' + w[i + 1:] for i in range(0, n, 5)]
        for s in cands:
            if s in seen:
                continue
            seen.add(s)
            need = bits_needed(s)
            wk = O.is_walk(G, start, s)
            dec_case(r, k, G, acc, start, s, need, walk=wk)
            dec_case(r, k, G, acc, start, s, need, T=T, tab=tab, walk=wk)
            if fast_ok:
                dec_case(r, k, G, acc, start, s, need, fast=True, walk=wk)
                dec_case(r, k, G, acc, start, s, carried_bits(G, start, s), fast=True, walk=wk)
    r.states += len(seen)
    r.nontriv += len(seen)
    r.ctr['long_strings'] += len(seen)
    r.maxi('long_strand_nt', n)


def _w_long(args):
    r = core.Res()
    k, G, start, n = args
    long_class(r, k, G, start, n)
    return r


def check_case(r, kind, case):
    G = case['G']
    T = case.get('table')
    dec_case(r, case['k'], G, U.A(G), case['start'], case['s'], case['L'], fast=case['fast'], chk=case['chk'], T=T,
             tab=None if T is None else np.array(T, dtype=int))


def _w_g1(args):
    quick, lo, hi = args
    r = core.Res()
    for code in range(lo, hi):
        if core.expired():
            r.caps.append('deadline reached inside a chunk')
            break
        G, classes = U.k1_classes(code)
        for start, wf, nr in classes:
            R = O.reach(G, start)
            fast_ok = coder.no_deg3(G, R)
            # thorough: longer continuations after a rejected step, walk prefixes up to 2, brute force to 5 symbols;
            # the per-string extras stay those of the quick tier
            check_class(r, 1, G, start, 1 if quick else 2, 1 if quick else 2, fast_ok, quick=True,
                        brute=(4 if quick else 5) if nr <= 2 else 0)
            r.ctr['classes'] += 1
            r.out.add((wf, nr, fast_ok))
    r.sample(_LAST.get('case'), 1)
    return r


def _w_other(args):
    quick, items = args
    r = core.Res()
    for k, G, starts, _ in items:
        for start in starts:
            R = O.reach(G, start)
            fast_ok = coder.no_deg3(G, R)
            check_class(r, k, G, start, 1, 2, fast_ok, quick=True, brute=(4 if quick else 5) if k == 2 and len(O.has_arcs(G)) <= 4 else 0)
            edits_class(r, k, G, start, 3 if (quick or sum(1 for row in G for x in row if x >= 0) > 16) else 4, fast_ok)
            r.ctr['classes'] += 1
    return r


def run(ctx):
    from ..observe import install
    import dsw
    install([dsw.spiderweb, dsw.operation])
    ctx.pmap(_w_g1, [(ctx.quick, lo, hi) for lo, hi in core.ranges(1 << 16, 256)])
    ctx.log('G1 done', ctx.res.evals)
    items = [it for it in coder.other_graphs(ctx.quick) if it[0] == 2]
    ctx.pmap(_w_other, [(ctx.quick, c) for c in core.chunks_of(items, 10)])
    from .. import repair as RP
    lg = RP.filter_graphs((3, 4, 5), ts=(1, 2), small=True)
    jobs = []
    for k, G, t in lg[:(9 if ctx.quick else 30)]:
        live = sorted(O.has_arcs(G))
        for st_ in (live[0], live[len(live) // 2], live[-1]):
            for n in ((40,) if ctx.quick else (40, 150)):
                jobs.append((k, G, st_, n))
    ctx.pmap(_w_long, jobs)
    ctx.guard('long strands', ctx.res.ctr['long_strings'] > 1000)
    ctx.bounds = {'long_strands': '%d (filter graph of order 3-5, start) pairs: rule walks of %s nt with every single edit' % (len(jobs), '40' if ctx.quick else '40 and 150'),
                  'G1': 'all 158,824 (graph,start) classes incl. ill-formed graphs and dead starts',
                  'automaton': 'every reachable vertex (shortest prefix and every walk prefix of length <= %d) x 9 symbols x continuations of length <= %d'
                               % ((1, 1) if ctx.quick else (2, 2)),
                  'brute_force': 'all strings over ACGTN of length <= %d on classes with <= 2 reachable vertices' % (4 if ctx.quick else 5),
                  'bit_lengths': '0, 1, needed, needed+3', 'checks': 'absent, correct, wrong, check of a single-edit neighbour',
                  'edits': 'all single edits of all walks of length <= %s on the order-2 binary-embedding and deletion graphs' % ('3' if ctx.quick else '4 (3 on graphs with more than 16 arcs)')}
    ctx.rule = ('one case = (graph class, start, string, bit length, check, mode): the real decode returns an array of exactly the '
                'requested length iff the string is a walk (and the check matches), else raises ValueError and nothing else; the '
                'strings cover every transition of the walk automaton of every class; states = distinct strings per class; '
                'non-trivial = non-empty string')
    ctx.assumptions = ['acceptance depends only on (current vertex, next symbol): cross-checked by brute force on small classes',
                       'fast mode only on classes whose reachable part has no out-degree 3, with a bit length that the walkable prefix cannot exceed']
    ctx.guard('both verdicts', ctx.res.ctr['accepted'] > 1000 and ctx.res.ctr['rejected'] > 1000)
    ctx.guard('all classes', ctx.res.ctr['classes'] > 158000)
