"""C16 - bit / number / DNA conversions are exact inverses at any length."""
import sys
import numpy as np
from .. import core, oracle as O, util as U
from ..observe import run as brun

PID = 'C16'


class unlimited(object):
    """The reference needs int <-> str conversions of any size; the library call must see the
    interpreter's default conversion limit (4300 digits), as a user's process would."""

    def __enter__(self):
        self.old = sys.get_int_max_str_digits()
        sys.set_int_max_str_digits(0)

    def __exit__(self, *a):
        sys.set_int_max_str_digits(self.old)



def LIM(L):
    """loop budget: the conversions are quadratic in the length (digit-serial arithmetic per symbol)"""
    return 100 * (L + 8) ** 2 + 10 ** 6


def _bits_ok(got, exp):
    return U.same_ints(got, exp)


def check_bits(r, bits, containers=('list', 'numpy')):
    """bit array -> number (both paths, both containers) -> bit array."""
    import dsw
    L = len(bits)
    val = O.bits_value(bits)
    case = {'bits': ''.join(map(str, bits)) if L <= 160 else None, 'L': L,
            'spec': None if L <= 160 else _bspec(bits)}
    r.states += 1
    if L > 0 and 0 < val < (1 << L) - 1:
        r.nontriv += 1
    for cont in containers:
        arr = list(bits) if cont == 'list' else np.array(bits, dtype=int)
        st, s, _ = brun(dsw.bit_to_number, arr, is_string=True, lim=LIM(L))
        r.trans += 1
        r.evals += 1
        if st != 'ok' or s != str(val):
            r.v('C16|bit_to_number|str-path|%s' % cont, 'bits', case, str(val)[:80], s if st == 'ok' else st)
        if cont == 'list' or val < 2 ** 62:
            st, n, _ = brun(dsw.bit_to_number, arr, is_string=False, lim=LIM(L))
            r.trans += 1
            if st != 'ok' or isinstance(n, str) or int(n) != val:
                r.v('C16|bit_to_number|int-path|%s' % cont, 'bits', case, str(val)[:80], str(n)[:80] if st == 'ok' else st)
    for num, tag in ((str(val), 'str'), (val, 'int')):
        st, back, _ = brun(dsw.number_to_bit, decimal_number=num, bit_length=L, lim=LIM(L))
        r.trans += 1
        r.evals += 1
        if st != 'ok' or not _bits_ok(back, bits):
            r.v('C16|number_to_bit|round-trip|%s' % tag, 'bits', case, case['bits'], back if st == 'ok' else st)
        if L <= 16:
            # left padding at a wider width
            st, wide, _ = brun(dsw.number_to_bit, decimal_number=num, bit_length=L + 3)
            r.trans += 1
            if st != 'ok' or not _bits_ok(wide, [0, 0, 0] + list(bits)):
                r.v('C16|number_to_bit|padding|%s' % tag, 'bits', case, [0, 0, 0] + list(bits), wide if st == 'ok' else st)


def check_dna(r, s):
    import dsw
    L = len(s)
    val = O.idx(s)
    case = {'dna': s if L <= 160 else None, 'L': L, 'spec': None if L <= 160 else _dspec(s)}
    r.states += 1
    if L > 0 and s.strip('A') != '' and s[0] == 'A':
        r.nontriv += 1
    st, a, _ = brun(dsw.dna_to_number, dna_sequence=s, is_string=True, lim=LIM(2 * L))
    st2, b, _ = brun(dsw.dna_to_number, dna_sequence=s, is_string=False, lim=LIM(2 * L))
    r.trans += 2
    r.evals += 1
    if st != 'ok' or a != str(val):
        r.v('C16|dna_to_number|str-path', 'dna', case, str(val)[:80], a if st == 'ok' else st)
    if st2 != 'ok' or isinstance(b, str) or int(b) != val:
        r.v('C16|dna_to_number|int-path', 'dna', case, str(val)[:80], str(b)[:80] if st2 == 'ok' else st2)
    for num, tag in ((str(val), 'str'), (val, 'int')):
        st, back, _ = brun(dsw.number_to_dna, decimal_number=num, dna_length=L, lim=LIM(2 * L))
        r.trans += 1
        r.evals += 1
        if st != 'ok' or back != s:
            r.v('C16|number_to_dna|round-trip|%s' % tag, 'dna', case, s[:80], back[:80] if st == 'ok' else st)
        if L <= 8:
            st, wide, _ = brun(dsw.number_to_dna, decimal_number=num, dna_length=L + 2)
            r.trans += 1
            if st != 'ok' or wide != 'AA' + s:
                r.v('C16|number_to_dna|padding|%s' % tag, 'dna', case, 'AA' + s, wide if st == 'ok' else st)


def _bspec(bits):
    return {'pattern': 'see long family', 'head': ''.join(map(str, bits[:8])), 'tail': ''.join(map(str, bits[-8:]))}


def _dspec(s):
    return {'head': s[:8], 'tail': s[-8:]}


def long_bits(L):
    h = L // 2
    return [[1] * L, [0] * L, [1] + [0] * (L - 1), [0] * (L - 1) + [1], [1, 0] * h + [1] * (L % 2),
            [0, 1] * h + [0] * (L % 2), [1] * h + [0] * (L - h)]


def long_dna(L):
    h = L // 2
    return ['T' * L, 'A' * L, 'C' + 'A' * (L - 1), 'A' * (L - 1) + 'C', ('GT' * h + 'G' * (L % 2)),
            ('AC' * h + 'A' * (L % 2)), 'T' * h + 'A' * (L - h), ('ACGT' * (L // 4 + 1))[:L]]


def check_case(r, kind, case):
    if kind == 'beyond':
        r.merge(_w_beyond_limit(case['which']))
        return
    if kind == 'bits':
        if case.get('bits') is not None:
            check_bits(r, [int(c) for c in case['bits']])
        else:
            for b in long_bits(case['L']):
                check_bits(r, b, containers=('list',))
    else:
        if case.get('dna') is not None:
            check_dna(r, case['dna'])
        else:
            for s in long_dna(case['L']):
                check_dna(r, s)


def _w_bits(chunk):
    r = core.Res()
    L, lo, hi = chunk
    for n in range(lo, hi):
        check_bits(r, U.bits_of(n, L))
    r.sample({'bits': ''.join(map(str, U.bits_of(hi - 1, L)))}, 1)
    return r


def _w_dna(chunk):
    r = core.Res()
    L, lo, hi = chunk
    for n in range(lo, hi):
        check_dna(r, O.kmer(n, L))
    r.sample({'dna': O.kmer(hi - 1, L)}, 1)
    return r


def _w_long(chunk):
    r = core.Res()
    kind, L, i = chunk
    if kind == 'bits':
        check_bits(r, long_bits(L)[i], containers=('list', 'numpy') if L <= 256 else ('list',))
    else:
        check_dna(r, long_dna(L)[i])
    r.maxi('long_' + kind, L)
    return r


def _w_beyond_limit(which):
    """A decimal string of more than 4300 digits (the interpreter's int<->str conversion limit) rendered as
    DNA / bits: the string-typed path must not depend on that limit."""
    import dsw
    r = core.Res()
    with unlimited():
        val = int('7' + '3' * 4310)
        num = str(val)
    if which == 'dna':
        L = (val.bit_length() + 1) // 2
        exp = O.kmer(val, L)
        st, got, _ = brun(dsw.number_to_dna, decimal_number=num, dna_length=L, lim=10 ** 10)
        ok = st == 'ok' and got == exp
    else:
        L = val.bit_length()
        exp = U.bits_of(val, L)
        st, got, _ = brun(dsw.number_to_bit, decimal_number=num, bit_length=L, lim=10 ** 10)
        ok = st == 'ok' and _bits_ok(got, exp)
    r.trans += 1
    r.evals += 1
    r.states += 1
    r.nontriv += 1
    r.maxi('decimal_digits_rendered', len(num))
    if not ok:
        r.v('C16|number_to_%s|str-path|beyond-4300-digits' % which, 'beyond', {'which': which}, 'rendering of a 4312-digit decimal string', repr(got)[:120] if st != 'ok' else 'differs')
    return r


def _w_sweep(chunk):
    r = core.Res()
    for kind, x in chunk:
        if kind == 'sweep_bits':
            check_bits(r, list(x))
        else:
            check_dna(r, x)
        r.ctr[kind] += 1
    return r


def run(ctx):
    from ..observe import install
    import dsw
    install([dsw.operation])
    LB = 14 if ctx.quick else 16
    LD = 7 if ctx.quick else 8
    ch = []
    for L in range(0, LB + 1):
        ch += [(L, lo, hi) for lo, hi in core.ranges(1 << L, 512)]
    ctx.pmap(_w_bits, ch)
    ch = []
    for L in range(0, LD + 1):
        ch += [(L, lo, hi) for lo, hi in core.ranges(4 ** L, 512)]
    ctx.pmap(_w_dna, ch)
    bl = [31, 32, 33, 63, 64, 65, 127, 128, 255, 256, 1024] + ([] if ctx.quick else [2048, 4096])
    dl = [15, 16, 17, 31, 32, 33, 64, 128, 512] + ([] if ctx.quick else [1024, 2048])
    ch = [('bits', L, i) for L in bl for i in range(7)] + [('dna', L, i) for L in dl for i in range(8)]
    ch.sort(key=lambda c: -c[1])
    ctx.pmap(_w_long, ch)
    # leading-zero / leading-A sweeps: block boundaries of any word size up to 64 symbols at every offset
    from ..coder import zero_run_messages
    sweeps = [('sweep_bits', b) for b in zero_run_messages()]
    for z in list(range(0, 40)) + [63, 64, 65]:
        for t in ('C', 'TGCA', 'T' * 12, 'CAAAAAAAAAAAG', 'T' * 24):
            sweeps.append(('sweep_dna', 'A' * z + t))
    # prefixes that are exact multiples of powers of ten (9- and 18-digit blocks become exactly 10^9, 10^18 one step later)
    for p_ in list(range(1, 100)) + [125, 150, 250, 375, 500, 625, 750, 875]:
        for m in (8, 9, 10, 17, 18, 19, 27):
            N = p_ * 10 ** m
            b = [int(c) for c in bin(N)[2:]]
            for suf in ([0], [1], [0, 1]):
                sweeps.append(('sweep_bits', b + suf))
            d = O.kmer(N, max(1, (N.bit_length() + 1) // 2))
            sweeps.append(('sweep_dna', d + 'C'))
            sweeps.append(('sweep_dna', 'A' + d + 'A'))
    ctx.pmap(_w_sweep, core.chunks_of(sweeps, 20) )
    ctx.pmap(_w_beyond_limit, ['dna'] if ctx.quick else ['dna', 'bit'])
    ctx.bounds = {'all_bit_arrays_up_to': LB, 'all_dna_strings_up_to': LD, 'long_bits': bl, 'long_dna': dl}
    ctx.rule = ('one case = one bit array / DNA string, converted to a number on the string and the integer path (list and '
                'numpy containers) and back at the original and at a wider width, compared with Python int(...) / base-4 '
                'Horner; all arrays/strings up to the bound (which is all numbers below 2^L / 4^L at each width L) and the '
                'long family; non-trivial = value is neither 0 nor all-ones (bits) / has a leading A and a non-A body (DNA)')
    ctx.assumptions = ['integer-typed path is exercised with Python int elements (documented list input); numpy containers on the '
                       'integer path only below 2^62 (beyond that numpy int64 wraps: outside the statement)']
