"""C15 - string big-number arithmetic equals integer arithmetic."""
import sys
from .. import core
from ..observe import run as brun

PID = 'C15'
OPS = ('add', 'sub', 'mul', 'div')


class unlimited(object):
    """The reference needs int <-> str conversions of any size; the library call must see the
    interpreter's default conversion limit (4300 digits), as a user's process would."""

    def __enter__(self):
        self.old = sys.get_int_max_str_digits()
        sys.set_int_max_str_digits(0)

    def __exit__(self, *a):
        sys.set_int_max_str_digits(self.old)



def expected(op, n, b):
    if op == 'add':
        return str(n + b)
    if op == 'sub':
        return str(n - b) if n >= b else None
    if op == 'mul':
        return str(n * b)
    if op == 'div':
        if b == 0:
            return None  # documented special answer, not part of the statement
        q, m = divmod(n, b)
        return (str(q), str(m))


def call(op, s, b):
    import dsw
    f = {'add': dsw.calculus_addition, 'sub': dsw.calculus_subtraction, 'mul': dsw.calculus_multiplication,
         'div': dsw.calculus_division}[op]
    return brun(f, number=s, base=str(b), lim=2000000)


def check_one(r, op, s, b, n=None):
    with unlimited():
        n = int(s) if n is None else n
        e = expected(op, n, b)
    if e is None:
        return
    st, got, _ = call(op, s, b)
    r.trans += 1
    r.evals += 1
    ok = st == 'ok'
    if ok:
        if op == 'div':
            ok = isinstance(got, tuple) and len(got) == 2 and got[0] == e[0] and got[1] == e[1]
        else:
            ok = isinstance(got, str) and got == e
    if not ok:
        r.v('C15|%s|result-differs-from-int' % op, 'op', {'op': op, 'number': s if len(s) < 200 else None,
                                                          'spec': None if len(s) < 200 else _spec(s),
                                                          'base': b},
            e if len(str(e)) < 300 else str(e)[:150] + '...', got if st == 'ok' and len(str(got)) < 300 else (str(got)[:150]), st)


def _spec(s):
    """compact description of a long operand: (first digit, middle digit, count, last digit)"""
    return {'first': s[0], 'mid': s[1] if len(s) > 2 else '', 'count': len(s) - 2, 'last': s[-1]}


def from_spec(sp):
    return sp['first'] + sp['mid'] * sp['count'] + sp['last']


def check_case(r, kind, case):
    s = case['number'] if case.get('number') is not None else from_spec(case['spec'])
    check_one(r, case['op'], s, case['base'])


# ---------------------------------------------------------------- reference transducers (the model)
def model_transitions():
    """Explore the digit-serial reference transducers completely.  A transition is
    (op, operand, state_in, digit, position-class) -> (digit_out, state_out); each is validated
    against int arithmetic on a 3-digit witness.  Returns the set of reachable transitions."""
    T = set()
    for b in range(10):
        # addition / subtraction / multiplication run least-significant digit first
        for op in ('add', 'sub', 'mul'):
            seen, frontier = set(), [(0, 'first')]
            while frontier:
                stt, pos = frontier.pop()
                for d in range(10):
                    if op == 'add':
                        x = d + (b if pos == 'first' else 0) + stt
                        o, ns = x % 10, x // 10
                    elif op == 'sub':
                        x = d - (b if pos == 'first' else 0) - stt
                        o, ns = x % 10, (1 if x < 0 else 0)
                    else:
                        x = d * b + stt
                        o, ns = x % 10, x // 10
                    T.add((op, b, stt, d, pos))
                    if (ns, 'later') not in seen:
                        seen.add((ns, 'later'))
                        frontier.append((ns, 'later'))
        if b >= 1:
            seen, frontier = set(), [0]
            while frontier:
                rem = frontier.pop()
                for d in range(10):
                    x = rem * 10 + d
                    T.add(('div', b, rem, d, 'any'))
                    if x % b not in seen:
                        seen.add(x % b)
                        frontier.append(x % b)
    return T


def exercised(op, s, b):
    """Transitions of the reference transducer that the input (s, b) drives."""
    out = []
    if op in ('add', 'sub', 'mul'):
        stt = 0
        for i, ch in enumerate(reversed(s)):
            d = int(ch)
            pos = 'first' if i == 0 else 'later'
            out.append((op, b, stt, d, pos))
            if op == 'add':
                stt = (d + (b if i == 0 else 0) + stt) // 10
            elif op == 'sub':
                stt = 1 if d - (b if i == 0 else 0) - stt < 0 else 0
            else:
                stt = (d * b + stt) // 10
    else:
        rem = 0
        for ch in s:
            d = int(ch)
            out.append(('div', b, rem, d, 'any'))
            rem = (rem * 10 + d) % b
    return out


def _w_short(chunk):
    r = core.Res()
    lo, hi = chunk
    cov = set()
    for n in range(lo, hi):
        s = str(n)
        for b in range(10):
            for op in OPS:
                check_one(r, op, s, b, n)
                if n < 1000 and (op != 'div' or b >= 1) and (op != 'sub' or n >= b):
                    cov.update(exercised(op, s, b))
        r.states += 1
        if len(s) > 1 and ('9' in s or '0' in s):
            r.nontriv += 1
    r.out = cov
    r.sample({'number': str(hi - 1), 'ops': 'add/sub/mul/div with every base 0..9'}, 1)
    return r


def long_family(ms, full):
    A_ = '123456789' if full else '159'          # full: True = every a, b, d; 'mid' = every a, b with d in 0, 9
    B_ = '0123456789' if full else '0159'
    for m in ms:
        for a in A_:
            for b in B_:
                for d in ('0123456789' if full is True else '09'):
                    yield a + d * m + b
        for d in '123456789':
            yield d * m
        yield '1' + '0' * m
        for per in ('12', '90', '98', '19', '123456789', '9876543210', '142857', '3', '49'):
            w = (per * (m // len(per) + 2))[:m + 1]
            yield w if w[0] != '0' else '7' + w[1:]


def _w_long(chunk):
    r = core.Res()
    ms, full = chunk
    seen = set()
    for s in long_family(ms, full):
        if s in seen:
            continue
        seen.add(s)
        with unlimited():
            n = int(s)
        for b in range(10):
            for op in OPS:
                check_one(r, op, s, b, n)
        r.states += 1
        r.nontriv += 1
        r.maxi('digits', len(s))
    r.sample({'spec': _spec(s), 'digits': len(s)}, 1)
    return r


def _w_round(chunk):
    """p . 0^m and p . 9^m for every prefix p < 1000: exact powers of ten inside the number (blocks that
    become exactly 10^9, 10^18 after one step)."""
    r = core.Res()
    lo, hi = chunk
    for p_ in range(max(lo, 1), hi):
        for m in range(1, 31):
            for s in (str(p_) + '0' * m, str(p_) + '9' * m):
                with unlimited():
                    v = int(s)
                for b in range(10):
                    for op in OPS:
                        check_one(r, op, s, b, v)
                r.states += 1
                r.nontriv += 1
    return r


def _w_huge(args):
    r = core.Res()
    d, n = args
    for s in (d * n, '1' + '0' * (n - 2) + d, '9' * (n - 1) + d):
        with unlimited():
            v = int(s)
        for b in range(10):
            for op in OPS:
                check_one(r, op, s, b, v)
        r.states += 1
        r.nontriv += 1
        r.maxi('digits', len(s))
    return r


def run(ctx):
    from ..observe import install
    import dsw
    install([dsw.operation])
    top = 10 ** 5 if ctx.quick else 10 ** 6
    ctx.pmap(_w_short, core.ranges(top, 2000 if ctx.quick else 10000))
    model = model_transitions()
    hit = ctx.res.out & model
    ctx.res.out = set()
    if ctx.quick:
        full_ms = list(range(1, 41))
        special = [63, 64, 65, 127, 128, 129, 255, 256, 257, 511, 512, 1023, 1024, 1232, 1233, 1234, 1300]
        chunks = [([m], True) for m in full_ms] + [([m], False) for m in special]
    else:
        chunks = [([m], True) for m in range(1, 121)] + [([m], 'mid') for m in range(121, 1301)]
    ctx.pmap(_w_long, chunks)
    ctx.pmap(_w_round, core.ranges(1000, 25)[0:] if True else [])
    # of any length: beyond 4300 digits (the interpreter's int<->str conversion limit) too
    ctx.pmap(_w_huge, [(d, n) for d in '19375' for n in (4299, 4300, 4301, 4400, 9000)])
    ctx.cov['model_transitions_reachable'] = len(model)
    ctx.cov['model_transitions_exercised_by_inputs_below_1000'] = len(hit)
    ctx.guard('every reachable transducer transition exercised', len(hit) == len(model))
    ctx.bounds = {'all_numbers_below': top, 'operands': '0..9', 'periodic_long_numbers': 'prefixes of 9 periodic digit patterns at every long-chain length', 'long_chain_m': 'every m in 1..120 with every a,b,d; every m in 121..1300 with d in 0,9' if not ctx.quick else
                  'every m in 1..40 with all a,b,d; m in {63..65,127..129,255..257,511,512,1023,1024,1232..1234,1300} with a in 1,5,9 and b in 0,1,5,9'}
    ctx.rule = ('one case = (operation, canonical decimal string, operand digit) compared with Python int arithmetic; all '
                'strings below the bound and the complete long-chain families a9^mb, a0^mb, d^m, 10^m; non-trivial = '
                'number with a 0 or 9 digit (carry/borrow chains) or any long-chain member; states = distinct numbers')
    ctx.assumptions = ['reference = Python int', 'division by 0 is documented to answer ("0","0") and is outside the statement',
                       'the helpers are digit-serial transducers with state in 0..9: supported by complete transition coverage, not proved']
