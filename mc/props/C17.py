"""C17 - reported capacity is the log2 spectral radius of the graph."""
import math
import itertools
import numpy as np
from .. import core, oracle as O, util as U
from ..observe import run as brun

PID = 'C17'
TOL = 1e-4
_LAST = {}
GAP = 0.8          # accepted only well inside the statement's 0.9 so eigen-solver error cannot pull a graph in


def classify(G):
    """Returns dict: arcless, regular degree d or None, precondition (bool), rho enclosure."""
    n = len(G)
    adj = [[w for w in G[v] if w >= 0] for v in range(n)]
    live = [v for v in range(n) if adj[v]]
    info = {'arcless': not live, 'regular': None, 'pre': False, 'rho': None}
    if not live:
        return info
    L_ = set(live)
    degs = {sum(1 for w in adj[v] if w in L_) for v in live}      # live successors; arcs into dead vertices may exist besides
    if len(degs) == 1 and 0 not in degs:
        info['regular'] = degs.pop()
    comps = [c for c in O.tarjan(n, adj) if len(c) > 1 or (c[0] in adj[c[0]])]
    if len(comps) != 1:
        return info
    comp = comps[0]
    if O.period(comp, adj) != 1:
        return info
    M = np.zeros((n, n))
    for v in range(n):
        for w in adj[v]:
            M[v, w] = 1.0
    ev = sorted(np.abs(np.linalg.eigvals(M)), reverse=True)
    if ev[0] <= 0 or (len(ev) > 1 and ev[1] > GAP * ev[0]):
        return info
    lo, hi = O.rho_bounds(comp, adj, iters=400, eps=1e-12)
    if not (hi - lo < 1e-11) or lo <= 0:
        return info
    info['pre'] = True
    info['rho'] = (lo, hi)
    return info


def cap_call(acc, repeats, seed):
    import dsw
    if seed is not None:
        np.random.seed(seed)
    return brun(dsw.approximate_capacity, acc, repeats=repeats, lim=20000000)


def check_graph(r, k, G, seeds, reps, info=None, single=True, extra=None):
    info = classify(G) if info is None else info
    acc = U.A_reuse(G)
    case0 = {'k': k, 'arcs': [(u, j) for u in range(len(G)) for j in range(4) if G[u][j] >= 0]}
    if extra:
        case0.update(extra)
    r.states += 1
    pre = 'C17|'
    calls = [(1, None)] if single else []
    calls += [(rp, s) for rp in reps for s in seeds]
    for rp, s in calls:
        st, val, _ = cap_call(acc, rp, s)
        r.trans += 1
        r.evals += 1
        case = dict(case0, repeats=rp, seed=s)
        mode = 'single-start' if rp == 1 else 'random-init'
        if st != 'ok':
            r.v(pre + '%s|%s' % (mode, 'does-not-return' if st == 'budget' else 'raised-%s' % type(val).__name__), 'cap', case, None, repr(val)[:100])
            continue
        try:
            x = float(val)
        except Exception:
            r.v(pre + '%s|non-numeric-result' % mode, 'cap', case, None, repr(val)[:100])
            continue
        if not (x <= 2.0 + 1e-9) or math.isnan(x):
            r.v(pre + '%s|exceeds-2-bits-per-nucleotide' % mode, 'cap', case, '<= 2', x)
        if info['arcless'] and x != 0.0:
            r.v(pre + '%s|arc-less-graph-not-0' % mode, 'cap', case, 0.0, x)
        if rp == 1 and info['regular'] is not None:
            e = math.log2(info['regular'])
            if abs(x - e) > 1e-12:
                r.v(pre + 'single-start|regular-graph-not-log2-d', 'cap', case, e, x)
            r.ctr['regular_checked'] += 1
        if info['pre']:
            lo, hi = info['rho']
            e = math.log2((lo + hi) / 2)
            if abs(x - e) > TOL:
                r.v(pre + '%s|off-by-more-than-1e-4-on-precondition-graph' % mode, 'cap', case, e, x)
            r.ctr['precondition_checked_' + mode] += 1
            _LAST['case'] = dict(case, result=x, log2_spectral_radius_enclosure=[math.log2(lo), math.log2(hi)])
            r.out.add(round(e, 6))
    if info['pre']:
        r.nontriv += 1


def graph_from_case(case):
    k = case['k']
    G = [[-1] * 4 for _ in range(4 ** k)]
    for u, j in case['arcs']:
        G[u][j] = O.succ(u, k)[j]
    return G


def alphabet_graph(k, alph):
    """The de Bruijn graph of order k over a sub-alphabet: regular, capacity exactly log2 |alphabet|."""
    return O.from_mask({O.idx(''.join(p)) for p in itertools.product(alph, repeat=k)}, k)


_INFO = {}


def check_history(r, k, alphs):
    """Single-start calls on a sequence of equal-sized graphs in one process: every result must be the
    one the graph alone gives (regular graphs: exactly log2 d), whatever was evaluated before."""
    for i, a in enumerate(alphs):
        G = alphabet_graph(k, a)
        if (k, a) not in _INFO:
            _INFO[(k, a)] = classify(G)
        check_graph(r, k, G, [], [], info=_INFO[(k, a)], single=True, extra={'history': list(alphs[:i])} if i else None)
    r.ctr['call_histories'] += 1


def check_case(r, kind, case):
    for a in case.get('history') or []:          # replay the calls that came before
        cap_call(U.A_reuse(alphabet_graph(case['k'], a)), 1, None)
    G = graph_from_case(case)
    check_graph(r, case['k'], G, [case['seed']] if case['seed'] is not None else [], [case['repeats']] if case['repeats'] != 1 else [],
                single=(case['repeats'] == 1))


def _w_g1(chunk):
    r = core.Res()
    lo, hi, seeds, reps = chunk
    for code in range(lo, hi):
        if core.expired():
            r.caps.append('deadline reached inside a chunk')
            break
        G = O.k1graph(code)
        info = classify(G)
        if info['pre'] or info['regular'] is not None or info['arcless']:
            check_graph(r, 1, G, seeds, reps, info)
        else:
            check_graph(r, 1, G, seeds[:1], reps[:1], info)     # only "<= 2" applies
    r.sample(_LAST.get('case') or {'k': 1, 'arc_code': '0x%04x' % (hi - 1)}, 1)
    return r


def _w_g2(chunk):
    r = core.Res()
    lo, hi, seeds, reps = chunk
    for m in range(lo, hi):
        if core.expired():
            r.caps.append('deadline reached inside a chunk')
            break
        mask = {i for i in range(16) if m >> i & 1}
        G = O.from_mask(mask, 2)
        info = classify(G)
        if info['pre'] or info['regular'] is not None or info['arcless']:
            check_graph(r, 2, G, seeds, reps, info)
        else:
            check_graph(r, 2, G, seeds[:1], reps[:1], info)
    r.sample(_LAST.get('case') or {'k': 2, 'vertex_mask': '0x%04x' % (hi - 1)}, 1)
    return r


def _w_list(chunk):
    r = core.Res()
    seeds, reps, items = chunk
    for k, G in items:
        check_graph(r, k, G, seeds, reps)
        r.ctr['higher_order_graphs'] += 1
    k, G = items[-1]
    r.sample({'k': k, 'arcs': [(u, j) for u in range(len(G)) for j in range(4) if G[u][j] >= 0][:30], 'repeats': [1] + list(reps)}, 1)
    return r


def _w_hist(chunk):
    r = core.Res()
    for k, alphs in chunk:
        check_history(r, k, alphs)
    return r


def higher_order(quick):
    """Orders 3-5: complete graphs minus at most one arc (order 3), filter-generated graphs (reference gfp)."""
    from .C03 import filter_masks
    items = [(3, O.complete(3)), (4, O.complete(4))]
    for u in range(64):
        for j in range(4):
            if quick and (u * 4 + j) % 5:
                continue
            G = O.complete(3)
            G[u][j] = -1
            items.append((3, G))
    for k, mask in filter_masks(3, 4 if quick else 5):
        for t in (1, 2):
            S = O.gfp(mask, k, t)
            if S:
                items.append((k, O.from_mask(S, k)))
        items.append((k, O.from_mask(mask, k)))      # the valid graph: dead ends and transient parts
    return items


def run(ctx):
    from ..observe import install
    import dsw
    install([dsw.graphized, dsw.operation])
    base = 1000 + 17 * ctx.seed
    seeds = [base + i for i in range(2 if ctx.quick else 10)]
    reps = [2, 3] if ctx.quick else [2, 3, 10]
    ctx.pmap(_w_g1, [(lo, hi, seeds, reps) for lo, hi in core.ranges(1 << 16, 256)])
    ctx.log('G1 done', ctx.res.evals)
    ctx.pmap(_w_g2, [(lo, hi, seeds[:1] if ctx.quick else seeds[:3], reps[:1] if ctx.quick else reps) for lo, hi in core.ranges(1 << 16, 256)])
    ho = higher_order(ctx.quick)
    ctx.pmap(_w_list, [(seeds[:1], reps[:1], c) for c in core.chunks_of(ho, 3)])
    # call histories at orders 3-4 (5): all sequences of 2 and 3 single-start calls over the sub-alphabet graphs
    alphs = [''.join(c) for n_ in (2, 3) for c in itertools.combinations('ACGT', n_)] + ['ACGT']
    hist = [(k_, list(h)) for k_ in ((3, 4) if ctx.quick else (3, 4, 5)) for n_ in (2, 3) for h in itertools.product(alphs if k_ <= 4 else alphs[:6], repeat=n_)]
    ctx.pmap(_w_hist, core.chunks_of(hist, 40))
    ctx.guard('call histories', ctx.res.ctr['call_histories'] == len(hist))
    ctx.exhaustive = False
    ctx.bounds = {'call_histories': '%d sequences of 2-3 single-start calls over the %d sub-alphabet de Bruijn graphs at orders 3-%d' % (len(hist), len(alphs), 4 if ctx.quick else 5), 'higher_orders': '%d graphs of order 3-5 (complete minus one arc, filter coding graphs and valid graphs)' % len(ho),
                  'graphs': 'all 65536 order-1 arc subsets; all 65536 order-2 vertex-induced graphs', 'repeats': [1] + reps,
                  'seeds': seeds, 'spectral_gap_accepted_at': GAP}
    ctx.rule = ('one case = (graph, repeats, RNG seed): result <= 2, 0 for arc-less graphs, log2 d for regular graphs in single-start '
                'mode, within 1e-4 of log2 of a certified Collatz-Wielandt enclosure of the spectral radius on graphs meeting the '
                'structural precondition (own Tarjan SCC + period, conservative spectral gap 0.8); non-trivial = precondition graph')
    ctx.assumptions = ['the continuum of random initial vectors cannot be enumerated: the owned environment answer is the seeded numpy global RNG, '
                       'explored over a finite seed menu derived from VERIF_SEED', 'orders > 2 only through an enumerated family of complete-minus-one-arc and filter graphs',
                       'the spectral gap is read from numpy eigvals with a safety margin (0.8 instead of 0.9); shrinking the checked set cannot cause an alarm']
    ctx.guard('precondition graphs', ctx.res.ctr['precondition_checked_random-init'] > 5000)
    ctx.guard('regular graphs', ctx.res.ctr['regular_checked'] > 100)
