"""C12 - the local filter implements its documented window predicate."""
import itertools
from .. import core, oracle as O, util as U
from ..observe import run as brun

PID = 'C12'
GC_MENU = [None, ('0.5', '0.5'), ('0.25', '0.75'), ('0.4', '0.6'), ('0.3', '0.5'), ('0', '1'), ('0.8', '1.0'),
           ('0.6', '0.4'), ('0.1', '0.3')]
GC_GRID = ['0', '0.1', '0.2', '0.25', '0.3', '0.4', '0.5', '0.6', '0.7', '0.75', '0.8', '0.9', '1']
MOTIFS = [None, [], ['A'], ['AC'], ['GC'], ['GAT'], ['ACG', 'TT'], ['ACGT'], ['AATT', 'G'], ['AC', 'GT'], ['CTG', 'CAG', 'A']]
FOREIGN = ['N', 'a', ' ', 'U', 'é', '\n', '\t']


def configs(quick):
    out = []
    for k in range(1, 6):
        runs = [None] + list(range(1, k + 1))
        for run in runs:
            for mot in MOTIFS:
                if mot is not None and any(len(m) > k for m in mot):
                    continue
                for gc in GC_MENU:
                    out.append((k, run, gc, mot))
            # motif == window
            out.append((k, run, None, [('ACGTA')[:k]]))
        for lo in GC_GRID:
            for hi in GC_GRID:
                if (lo, hi) in GC_MENU:
                    continue
                if quick and (GC_GRID.index(lo) + GC_GRID.index(hi)) % 2 == 1 and lo != '0.8' and hi != '0.8':
                    continue
                out.append((k, None, (lo, hi), None))
    return out


def make_filter(cfg):
    import dsw
    k, run, gc, mot = cfg
    return dsw.LocalBioFilter(observed_length=k, max_homopolymer_runs=run,
                              gc_range=None if gc is None else [float(gc[0]), float(gc[1])],
                              undesired_motifs=None if mot is None else list(mot))


def sig_of(cfg, s, what):
    k, run, gc, mot = cfg
    branch = 'short' if len(s) < k else 'window'
    return 'C12|valid|%s|%s-branch|run=%s|gc=%s|motifs=%s' % (what, branch, 'set' if run is not None else 'none',
                                                             'set' if gc is not None else 'none',
                                                             'set' if mot else 'none')


def check_cfg(r, cfg, n, only=None):
    """All strings up to length n for one configuration (or only the listed strings)."""
    k = cfg[0]
    case0 = {'cfg': [cfg[0], cfg[1], list(cfg[2]) if cfg[2] else None, cfg[3]]}
    st, f, _ = brun(make_filter, cfg)
    r.trans += 1
    if st != 'ok':
        r.v('C12|constructor|rejects-legal-configuration', 'cfg', dict(case0, strings=[]), 'accepted', f)
        return
    c = O.compile_cfg(cfg)
    dec = O.window_decidable(cfg)
    strings = only if only is not None else list(U.all_strings(n))
    verdict = {}
    r.states += 1
    for s in strings:
        st, got, _ = brun(f.valid, s, only_last=False)
        r.trans += 1
        r.evals += 1
        exp = O.seq_ok_c(c, s)
        if st != 'ok' or bool(got) != exp:
            r.v(sig_of(cfg, s, 'whole-sequence-verdict'), 'cfg', dict(case0, strings=[s]), exp, got if st == 'ok' else repr(got))
            got = exp
        verdict[s] = bool(got)
        if exp and len(s) >= k:
            _LAST['case'] = {'cfg': case0['cfg'], 'string': s, 'only_last': False, 'verdict': bool(got), 'reference': exp}
        r.out.add((exp, len(s) < k))
    nt = 0
    for s in strings:
        # last-window verdict == whole-sequence verdict of the final window
        st, lastv, _ = brun(f.valid, s)
        st2, lastv2, _ = brun(f.valid, s, only_last=True)
        r.trans += 2
        r.evals += 1
        tail = s[-k:]
        e = verdict.get(tail)
        if e is None:
            e = O.seq_ok_c(c, tail)
        if st != 'ok' or st2 != 'ok' or bool(lastv) != e or bool(lastv2) != e:
            r.v(sig_of(cfg, s, 'last-window-verdict'), 'cfg', dict(case0, strings=[s]), e, [repr(lastv), repr(lastv2)])
        if len(s) >= k and dec and only is None:
            conj = all(verdict[s[i:i + k]] for i in range(len(s) - k + 1))
            if verdict[s] != conj:
                r.v(sig_of(cfg, s, 'conjunction-of-windows'), 'cfg', dict(case0, strings=[s]), conj, verdict[s])
            nt += 1
        if only is None:
            rc = O.revcomp(s)
            if verdict[s] != verdict[rc]:
                r.v(sig_of(cfg, s, 'reverse-complement'), 'cfg', dict(case0, strings=[s]), verdict[rc], verdict[s])
    r.nontriv += 1 if (cfg[1] is not None or cfg[2] is not None or cfg[3]) else 0
    r.ctr['true_verdicts'] += sum(1 for v in verdict.values() if v)
    r.ctr['false_verdicts'] += sum(1 for v in verdict.values() if not v)
    # foreign characters: always rejected
    if only is None:
        for L in (1, 2, 3):
            for p in itertools.product('AG' + ''.join(FOREIGN), repeat=L):
                s = ''.join(p)
                if all(ch in 'AG' for ch in s):
                    continue
                for ol in (False, True):
                    if ol and all(ch in 'AG' for ch in s[-k:]):
                        continue
                    st, got, _ = brun(f.valid, s, only_last=ol)
                    r.trans += 1
                    r.evals += 1
                    if st != 'ok' or bool(got):
                        r.v('C12|valid|foreign-character-accepted', 'cfg', dict(case0, strings=[s], only_last=ol), False,
                            got if st == 'ok' else repr(got))


_LAST = {}
AWKWARD = ['0', '0.07', '0.125', '0.14', '0.25', '0.28', '0.29', '0.3', '0.333', '0.335', '0.35', '0.375', '0.4', '0.45', '0.5', '0.55',
           '0.56', '0.57', '0.58', '0.6', '0.625', '0.667', '0.7', '0.71', '0.75', '0.875', '0.9', '1']


def check_gc_wide(r, k, lo, hi, n):
    """GC rule alone at a wider window: the verdict depends only on the G/C vs A/T class of every
    symbol, so all strings over {A,C} up to length n decide it."""
    cfg = (k, None, (lo, hi), None)
    case0 = {'cfg': [k, None, [lo, hi], None], 'wide': True}
    st, f, _ = brun(make_filter, cfg)
    r.trans += 1
    if st != 'ok':
        r.v('C12|constructor|rejects-legal-configuration', 'wide', dict(case0, strings=[]), 'accepted', f)
        return
    c = O.compile_cfg(cfg)
    r.states += 1
    r.nontriv += 1
    for s in U.all_strings(n, 'AC', nmin=max(0, k - 2)):
        exp = O.seq_ok_c(c, s)
        st, got, _ = brun(f.valid, s, only_last=False)
        st2, last, _ = brun(f.valid, s)
        r.trans += 2
        r.evals += 1
        if st != 'ok' or bool(got) != exp:
            r.v(sig_of(cfg, s, 'whole-sequence-verdict|wide-window'), 'wide', dict(case0, strings=[s]), exp, got if st == 'ok' else repr(got))
        e2 = O.seq_ok_c(c, s[-k:])
        if st2 != 'ok' or bool(last) != e2:
            r.v(sig_of(cfg, s, 'last-window-verdict|wide-window'), 'wide', dict(case0, strings=[s]), e2, last if st2 == 'ok' else repr(last))
        r.ctr['true_verdicts' if exp else 'false_verdicts'] += 1


def check_huge_window(r, k, lo, hi):
    """Windows of 100-256 nucleotides: G/C counts beyond what 8-bit arithmetic holds."""
    cfg = (k, None, (lo, hi), None)
    case0 = {'cfg': [k, None, [lo, hi], None], 'huge': True}
    st, f, _ = brun(make_filter, cfg)
    if st != 'ok':
        r.v('C12|constructor|rejects-legal-configuration', 'huge', dict(case0, strings=[]), 'accepted', f)
        return
    c = O.compile_cfg(cfg)
    r.states += 1
    r.nontriv += 1
    from math import floor, ceil
    from fractions import Fraction
    marks = sorted({0, 1, k // 2, k - 1, k, 127, 128, 129, floor(Fraction(lo) * k), ceil(Fraction(lo) * k), floor(Fraction(hi) * k), ceil(Fraction(hi) * k),
                    floor(Fraction(hi) * k) + 1, max(ceil(Fraction(lo) * k) - 1, 0)})
    for g in marks:
        if not 0 <= g <= k:
            continue
        for L in (k - 1, k, k + 1, k + 7):
            for shape in ('block', 'spread', 'tail'):
                n_g = min(g, L)
                if shape == 'block':
                    s = 'G' * n_g + 'A' * (L - n_g)
                elif shape == 'tail':
                    s = 'T' * (L - n_g) + 'C' * n_g
                else:
                    s = ''.join('C' if (i * n_g) // max(L, 1) != ((i + 1) * n_g) // max(L, 1) else 'A' for i in range(L))
                exp = O.seq_ok_c(c, s)
                st, got, _ = brun(f.valid, s, only_last=False)
                st2, last, _ = brun(f.valid, s)
                r.trans += 2
                r.evals += 1
                if st != 'ok' or bool(got) != exp:
                    r.v(sig_of(cfg, s, 'whole-sequence-verdict|huge-window'), 'huge', dict(case0, strings=[s]), exp, got if st == 'ok' else repr(got))
                e2 = O.seq_ok_c(c, s[-k:])
                if st2 != 'ok' or bool(last) != e2:
                    r.v(sig_of(cfg, s, 'last-window-verdict|huge-window'), 'huge', dict(case0, strings=[s]), e2, last if st2 == 'ok' else repr(last))
                r.ctr['true_verdicts' if exp else 'false_verdicts'] += 1
    r.maxi('widest_window', k)


def _w_huge(chunk):
    r = core.Res()
    for k, lo, hi in chunk:
        check_huge_window(r, k, lo, hi)
    return r


def check_long_strings(r, cfg):
    """Long strings (50 nt): periodic backgrounds with a run or a motif planted at every offset."""
    k = cfg[0]
    case0 = {'cfg': [cfg[0], cfg[1], list(cfg[2]) if cfg[2] else None, cfg[3]], 'long': True}
    st, f, _ = brun(make_filter, cfg)
    if st != 'ok':
        return
    c = O.compile_cfg(cfg)
    plants = ['AAAAAAA', 'GGGG', 'GC', 'GGC', 'TT', 'ACG', 'CGT', 'AGCT', 'CCCCCGGGGG', 'N']
    bgs = [''.join(p) for n in (1, 2, 3) for p in itertools.product('ACGT', repeat=n)]
    r.states += 1
    jobs = []
    for bg in bgs[::1 if k <= 6 else 3]:
        base = (bg * 60)[:50]
        for pl in plants:
            for off in range(0, 50 - len(pl), 1 if len(bg) == 1 else 3):
                jobs.append((base, pl, off))
    # the same construction at lengths around k+256, 600 and 1100: a plant in the first windows, around
    # the middle and in the last windows (a deviation at one place of an otherwise periodic strand)
    for L in (k + 255, k + 256, k + 257, 600, 1100):
        for bg in ('A', 'C', 'AC', 'GT', 'AG', 'ACGT', 'AACCGGTT', 'ACT', 'GCA')[::1 if k <= 6 else 2]:
            base = (bg * (L // len(bg) + 1))[:L]
            for pl in plants + ['C', 'A', 'T' * k, 'G' * k]:
                for off in sorted({0, 1, 2, k - 1, k, L // 2, L - len(pl) - k, L - len(pl) - 1, L - len(pl)}):
                    if 0 <= off <= L - len(pl):
                        jobs.append((base, pl, off))
    if True:
        if True:
            for base, pl, off in jobs:
                s = base[:off] + pl + base[off + len(pl):]
                exp = O.seq_ok_c(c, s)
                st, got, _ = brun(f.valid, s, only_last=False)
                st2, last, _ = brun(f.valid, s)
                r.trans += 2
                r.evals += 1
                if st != 'ok' or bool(got) != exp:
                    r.v(sig_of(cfg, s, 'whole-sequence-verdict|long-string'), 'long', dict(case0, strings=[s]), exp, got if st == 'ok' else repr(got))
                e2 = O.seq_ok_c(c, s[-k:])
                if st2 != 'ok' or bool(last) != e2:
                    r.v(sig_of(cfg, s, 'last-window-verdict|long-string'), 'long', dict(case0, strings=[s]), e2, last if st2 == 'ok' else repr(last))
                r.ctr['true_verdicts' if exp else 'false_verdicts'] += 1


def check_growing(r, cfg):
    """One filter instance judged on a strand that grows one nucleotide at a time (how a coder uses it),
    alternating whole-sequence and last-window calls."""
    k = cfg[0]
    case0 = {'cfg': [cfg[0], cfg[1], list(cfg[2]) if cfg[2] else None, cfg[3]], 'growing': True}
    c = O.compile_cfg(cfg)
    seeds = ['A' * (k + 4), 'T' * (k + 4), 'G' * (k + 3) + 'A', ('ACGT' * 6)[:k + 8], ('AACCGGTT' * 4)[:2 * k + 6], 'C' * k + 'G' * (k + 1),
             ('AT' * 10)[:k + 6] + 'GGGGGGG', ('GC' * 10)[:k + 5] + 'AAAAAAAT', 'ACG' * 2 + 'TT' + 'ACG' + 'AGCT']
    for seed in seeds:
        for order in ('whole-first', 'last-first', 'whole-only'):
            st, f, _ = brun(make_filter, cfg)
            if st != 'ok':
                return
            for i in range(1, len(seed) + 1):
                s = seed[:i]
                e_w, e_l = O.seq_ok_c(c, s), O.seq_ok_c(c, s[-k:])
                calls = [('w', e_w), ('l', e_l)] if order == 'whole-first' else [('l', e_l), ('w', e_w)] if order == 'last-first' else [('w', e_w)]
                for mode, exp in calls:
                    st, got, _ = brun(f.valid, s, only_last=(mode == 'l'))
                    r.trans += 1
                    r.evals += 1
                    if st != 'ok' or bool(got) != exp:
                        r.v(sig_of(cfg, s, ('whole-sequence' if mode == 'w' else 'last-window') + '-verdict|same-instance-growing-strand'), 'grow',
                            dict(case0, strings=[seed], at=i, order=order), exp, got if st == 'ok' else repr(got))
    r.ctr['growing_histories'] += len(seeds) * 3


def check_ctor(r):
    """Constructor: rejects run > window and motif > window with ValueError."""
    import dsw
    for k in range(1, 6):
        for run in range(k + 1, k + 3):
            st, f, _ = brun(dsw.LocalBioFilter, observed_length=k, max_homopolymer_runs=run)
            r.trans += 1
            r.evals += 1
            if not (st == 'exc' and isinstance(f, ValueError)):
                r.v('C12|constructor|run-longer-than-window-accepted', 'ctor', {'k': k, 'run': run}, 'ValueError', repr(f))
        long_ = 'GGATCCAG'[:k + 1] if k + 1 <= 8 else 'G' * (k + 1)
        for mots in (['A' * (k + 1)], ['TA'[:k], long_], [long_, 'TA'[:k]], ['C', long_, 'T'], [long_, long_ + 'A']):
            st, f, _ = brun(dsw.LocalBioFilter, observed_length=k, undesired_motifs=mots)
            r.trans += 1
            r.evals += 1
            if not (st == 'exc' and isinstance(f, ValueError)):
                r.v('C12|constructor|motif-longer-than-window-accepted', 'ctor', {'k': k, 'motifs': mots}, 'ValueError', repr(f))


def check_case(r, kind, case):
    if kind == 'ctor':
        check_ctor(r)
        return
    if kind == 'wide':
        c = case['cfg']
        check_gc_wide(r, c[0], c[2][0], c[2][1], max([len(x) for x in case.get('strings') or ['']] + [c[0]]))
        return
    if kind == 'huge':
        c = case['cfg']
        check_huge_window(r, c[0], c[2][0], c[2][1])
        return
    if kind == 'grow':
        c = case['cfg']
        check_growing(r, (c[0], c[1], tuple(c[2]) if c[2] else None, c[3]))
        return
    if kind == 'long':
        c = case['cfg']
        check_long_strings(r, (c[0], c[1], tuple(c[2]) if c[2] else None, c[3]))
        return
    cfg = case['cfg']
    cfg = (cfg[0], cfg[1], tuple(cfg[2]) if cfg[2] else None, cfg[3])
    strs = case.get('strings') or None
    if strs and 'only_last' in case:
        r2 = core.Res()
        check_cfg(r2, cfg, max(len(s) for s in strs))
        r.merge(r2)
        return
    # replay on the full string set of that length so that derived relations are re-evaluated
    check_cfg(r, cfg, max(len(s) for s in strs) if strs else 5)


def _w(chunk):
    r = core.Res()
    n, cfgs = chunk
    for cfg in cfgs:
        check_cfg(r, cfg, n)
    r.sample(_LAST.get('case') or {'cfg': list(cfgs[-1])}, 1)
    return r


def _w_wide(chunk):
    r = core.Res()
    for k, lo, hi, n in chunk:
        check_gc_wide(r, k, lo, hi, n)
    r.sample({'cfg': [chunk[-1][0], None, [chunk[-1][1], chunk[-1][2]], None], 'strings': 'all strings over {A,C} of length k-2..%d' % chunk[-1][3]}, 1)
    return r


def _w_long(chunk):
    r = core.Res()
    for cfg in chunk:
        check_long_strings(r, cfg)
    return r


def _w_grow(chunk):
    r = core.Res()
    for cfg in chunk:
        check_growing(r, cfg)
    return r


def _w_ctor(_):
    r = core.Res()
    check_ctor(r)
    return r


def run(ctx):
    from ..observe import install
    import dsw
    install([dsw.biofilter])
    n = 6 if ctx.quick else 8
    cfgs = configs(ctx.quick)
    ctx.pmap(_w, [(n, c) for c in core.chunks_of(cfgs, 8 if ctx.quick else 2)])
    wide = []
    for k in (3, 6, 7, 8, 10) if ctx.quick else (3, 6, 7, 8, 9, 10, 12):
        for lo in AWKWARD:
            for hi in AWKWARD:
                if float(lo) <= float(hi) or (lo, hi) in (('0.6', '0.4'),):
                    wide.append((k, lo, hi, min(k + 2, 11)))
    ctx.pmap(_w_wide, core.chunks_of(wide, 12))
    longs = []
    for k in (4, 6, 8, 10):
        for run, gc, mot in [(2, ('0.4', '0.6'), ['AGA', 'GAG', 'CTC', 'TCT']), (3, None, None), (None, ('0.1', '0.3'), None),
                             (2, ('0.5', '0.5'), ['AGCT', 'GCC']), (None, None, ['ACG', 'TT']), (6, None, None), (4, ('0.29', '0.71'), ['GC'])]:
            cfg = (k, None if run is None else min(run, k), gc, None if mot is None else [m for m in mot if len(m) <= k])
            longs.append(cfg)
    ctx.pmap(_w_long, [[c] for c in longs])
    grow = [c for c in cfgs if c[0] >= 2 and (c[1] is not None or c[3])][::3] + longs
    for k in (2, 3, 4, 6):
        grow += [(k, k, None, None), (k, k, ('0', '0.7'), None), (k, k, ('0.3', '1'), None), (k, k - 1, ('0', '1'), None)]
    ctx.pmap(_w_grow, core.chunks_of(grow, 6))
    ctx.guard('growing histories', ctx.res.ctr['growing_histories'] > 100)
    huge = [(k, lo, hi) for k in (100, 127, 128, 129, 200, 256) for lo, hi in (('0.4', '0.7'), ('0.5', '0.5'), ('0', '1'), ('0.6', '1'), ('0.64', '0.66'), ('0', '0.5'))]
    ctx.pmap(_w_huge, core.chunks_of(huge, 3))
    ctx.pmap(_w_ctor, [0], nproc=1)
    ctx.bounds = {'strings_up_to': n, 'configurations': len(cfgs), 'k': [1, 5], 'wide_window_gc_grid': '%d (k, lo, hi) with k up to %d and 28 decimals incl. 0.29, 0.57, 0.58, 0.335, on all {A,C}-strings up to length k+2' % (len(wide), 10 if ctx.quick else 12), 'long_strings': '%d configurations at k=4,6,8,10 on 50-nt periodic strings with a run/motif planted at every offset, and on strings of k+255..k+257, 600 and 1100 nt with the plant in the first, middle and last windows' % len(longs)}
    ctx.rule = ('one case = (configuration, string): whole-sequence verdict against an exact-rational reference predicate, '
                'last-window verdict against the verdict of the final window, conjunction over windows (window-decidable '
                'configurations), reverse-complement symmetry, foreign characters; states = configurations; non-trivial = '
                'configuration with at least one active rule')
    ctx.assumptions = ['GC bounds are the decimals the user wrote (Fraction(str))', 'motifs are non-empty ACGT strings']
    ctx.guard('both verdicts occur', ctx.res.ctr['true_verdicts'] > 0 and ctx.res.ctr['false_verdicts'] > 0)
