"""C18 - shuffle tables are reproducible per-vertex permutations."""
import itertools
import numpy as np
from .. import core, oracle as O, util as U
from ..observe import run as brun, capture, module_state

PID = 'C18'


def check_seed(r, k, seed, others=(1, 12345)):
    import dsw
    case = {'k': k, 'seed': seed}
    n = 4 ** k
    mods = [dsw.spiderweb, dsw.graphized, dsw.operation, dsw.biofilter]
    h0 = module_state(mods)
    with capture() as buf:
        st, t1, _ = brun(dsw.create_random_shuffles, observed_length=k, random_seed=seed)
    r.trans += 1
    r.evals += 1
    r.states += 1
    pre = 'C18|create_random_shuffles|'
    if st != 'ok':
        r.v(pre + 'raised', 'seed', case, None, repr(t1))
        return
    if buf.getvalue() != '':
        r.v(pre + 'prints-output', 'seed', case, '', buf.getvalue()[:100])
    a = np.asarray(t1)
    if a.shape != (n, 4):
        r.v(pre + 'shape', 'seed', case, [n, 4], list(a.shape))
        return
    rows = U.rows(a)
    if any(sorted(row) != [0, 1, 2, 3] for row in rows):
        r.v(pre + 'row-not-a-permutation', 'seed', case, None, [row for row in rows if sorted(row) != [0, 1, 2, 3]][:3])
    snap = a.copy()
    # the caller owns the table it was given: it may overwrite it, and a later call must not notice
    try:
        t1[...] = 7
    except Exception:
        pass
    st, t1b, _ = brun(dsw.create_random_shuffles, observed_length=k, random_seed=seed)
    r.trans += 1
    if st != 'ok' or not np.array_equal(np.asarray(t1b), snap):
        r.v(pre + 'result-aliased-between-calls', 'seed', case, None, None, 'first result overwritten by the caller, then the same call again')
    a = snap.copy()
    # interleave other seeds, then the same seed again
    for o in others:
        brun(dsw.create_random_shuffles, observed_length=k, random_seed=o)
        r.trans += 1
    st, t2, _ = brun(dsw.create_random_shuffles, observed_length=k, random_seed=seed)
    r.trans += 1
    if st != 'ok' or not np.array_equal(np.asarray(t2), snap):
        r.v(pre + 'same-seed-different-table', 'seed', case)
    if not np.array_equal(a, snap):
        r.v(pre + 'earlier-result-changed-by-later-call', 'seed', case)
    # fresh array each time: writing into one result must not show in the next
    if st == 'ok':
        try:
            t2[:] = 7
        except Exception:
            pass
        st, t3, _ = brun(dsw.create_random_shuffles, observed_length=k, random_seed=seed)
        r.trans += 1
        if st != 'ok' or not np.array_equal(np.asarray(t3), snap):
            r.v(pre + 'result-aliased-between-calls', 'seed', case)
    if module_state(mods) != h0:
        r.ctr['calls_that_changed_module_state'] += 1    # informational: an unobservable (correct) memo is not an effect a caller can see
    if len({tuple(x) for x in rows}) > 1:
        r.nontriv += 1
    r.out.add(tuple(rows[0]))


def _forked_history(seq):
    """Run the calls of seq, in order, in a child forked from this process (which has never called
    create_random_shuffles), and return one digest per call.  The child serves this one history only,
    so a state is exactly the call history that reaches it."""
    import os, pickle, hashlib
    rd, wr = os.pipe()
    pid = os.fork()
    if pid == 0:
        code = 0
        try:
            import dsw
            os.close(rd)
            out = []
            for k, seed in seq:
                st, t, _ = brun(dsw.create_random_shuffles, observed_length=k, random_seed=seed)
                if st != 'ok':
                    out.append('raised:' + repr(t)[:80])
                else:
                    a = np.ascontiguousarray(np.asarray(t), dtype=np.int64)
                    out.append('%s:%s' % (list(a.shape), hashlib.sha1(a.tobytes()).hexdigest()))
            with os.fdopen(wr, 'wb') as f:
                pickle.dump(out, f)
        except BaseException:
            code = 1
        finally:
            os._exit(code)
    os.close(wr)
    with os.fdopen(rd, 'rb') as f:
        data = f.read()
    os.waitpid(pid, 0)
    return pickle.loads(data) if data else None


_ALONE = {}


def check_hist(r, seq):
    """Same seed, same table, over call histories: every call of the history must return the table
    the same call returns when it is the only call a fresh process ever makes (differential oracle,
    no expected value written by hand).  Calls with seed None only move the global random state."""
    seq = [tuple(x) for x in seq]
    case = {'history': [list(x) for x in seq]}
    for c in seq:
        if c[1] is not None and c not in _ALONE:
            got = _forked_history([c])
            _ALONE[c] = got[0] if got else 'child-failed'
    got = _forked_history(seq)
    r.trans += len(seq)
    r.evals += 1
    r.states += 1
    r.ctr['call_histories'] += 1
    if got is None:
        r.v('C18|create_random_shuffles|history|child-failed', 'hist', case)
        return
    for i, (c, g) in enumerate(zip(seq, got)):
        if c[1] is None:
            if g.startswith('raised'):
                r.v('C18|create_random_shuffles|history|raised', 'hist', dict(case, at=i), None, g)
            continue
        if g != _ALONE[c]:
            r.v('C18|create_random_shuffles|same-seed-different-table|after-a-history-of-other-calls', 'hist', dict(case, at=i), _ALONE[c], g,
                'call %d of the history (k=%d, seed=%r) differs from the same call made alone in a fresh process' % (i, c[0], c[1]))
    if len(set(got)) > 1:
        r.nontriv += 1


def _w_hist(chunk):
    r = core.Res()
    for seq in chunk:
        check_hist(r, seq)
    r.sample({'history': [list(x) for x in chunk[-1]]}, 1)
    return r


def one_vertex_graph(pattern):
    """Order-1 accessor whose row 0 has the live pattern; the other rows are complete."""
    G = O.complete(1)
    G[0] = [(j if pattern >> j & 1 else -1) for j in range(4)]
    return G


def check_digit(r, pattern, perm):
    """The induced digit -> live-arc map at a vertex with this live pattern and this table row."""
    import dsw
    G = one_vertex_graph(pattern)
    acc = U.A(G)
    live = O.outs(G, 0)
    rad = len(live)
    T = [list(perm)] + [[0, 1, 2, 3]] * 3
    tab = np.array(T, dtype=int)
    tab0 = tab.tobytes()
    case = {'pattern': pattern, 'row': list(perm)}
    r.states += 1
    r.nontriv += 1 if (rad >= 2 and list(perm) != [0, 1, 2, 3]) else 0
    pre = 'C18|digit-map|'
    images = []
    if rad >= 2:
        for d in range(rad):
            q = d + rad  # first digit d, then quotient 1: one more step
            bits = U.bits_of(q, 4)
            st, s, _ = brun(dsw.encode, np.array(bits), acc, 0, shuffles=tab)
            r.trans += 1
            r.evals += 1
            exp = sorted(live, key=lambda j: perm[j])[d]
            if st != 'ok' or not isinstance(s, str) or len(s) < 1 or s[0] != O.NUC[exp]:
                r.v(pre + 'normal|digit-does-not-select-entry-dth-smallest-live-arc', 'digit', dict(case, d=d), O.NUC[exp], s if st == 'ok' else repr(s))
                continue
            images.append(s[0])
            st, back, _ = brun(dsw.decode, s, 4, acc, 0, shuffles=tab)
            r.trans += 1
            if st != 'ok' or not U.same_ints(back, bits):
                r.v(pre + 'normal|decode-does-not-invert', 'digit', dict(case, d=d), bits, back if st == 'ok' else repr(back))
        if len(images) == rad and len(set(images)) != rad:
            r.v(pre + 'normal|not-a-bijection', 'digit', case, rad, images)
    if rad in (2, 4):
        images = []
        w = 1 if rad == 2 else 2
        for d in range(rad):
            bits = U.bits_of(d, w)
            st, s, _ = brun(dsw.encode, np.array(bits), acc, 0, is_faster=True, shuffles=tab)
            r.trans += 1
            r.evals += 1
            exp = sorted(live, key=lambda j: perm[j])[d]
            if st != 'ok' or s != O.NUC[exp]:
                r.v(pre + 'fast|digit-does-not-select-entry-dth-smallest-live-arc', 'digit', dict(case, d=d), O.NUC[exp], s if st == 'ok' else repr(s))
                continue
            images.append(s)
            st, back, _ = brun(dsw.decode, s, w, acc, 0, is_faster=True, shuffles=tab)
            r.trans += 1
            if st != 'ok' or not U.same_ints(back, bits):
                r.v(pre + 'fast|decode-does-not-invert', 'digit', dict(case, d=d), bits, back if st == 'ok' else repr(back))
        if len(images) == rad and len(set(images)) != rad:
            r.v(pre + 'fast|not-a-bijection', 'digit', case, rad, images)
    # shuffling never changes which strands are walks
    for s in U.all_strings(2, nmin=1):
        w_ = O.is_walk(G, 0, s)
        st, res, _ = brun(dsw.decode, s, 8, acc, 0, shuffles=tab)
        st0, res0, _ = brun(dsw.decode, s, 8, acc, 0)
        r.trans += 2
        r.evals += 1
        if (st == 'ok') != w_ or (st0 == 'ok') != w_:
            r.v(pre + 'table-changes-set-of-walks', 'digit', dict(case, s=s), w_, [st, st0])
    if tab.tobytes() != tab0:
        r.v(pre + 'table-argument-modified', 'digit', case, T, U.rows(tab))
    r.out.add((pattern, tuple(images)))


MIXED = [[[0, 1, 2, -1], [0, 1, -1, -1], [-1, 1, 2, -1], [0, 1, 2, 3]], [[0, 1, 2, 3], [0, -1, 2, -1], [-1, 1, -1, -1], [0, 1, 2, -1]],
         [[-1, 1, 2, -1], [0, 1, -1, 3], [0, 1, 2, 3], [-1, -1, 2, -1]], [[0, 1, -1, -1], [0, 1, 2, 3], [0, -1, -1, 3], [-1, 1, 2, 3]]]


def check_walks(r, gi, perm):
    """Multi-step: a table whose rows are all the same permutation, on graphs with mixed out-degrees -
    equal rows meet different live patterns within one walk."""
    import dsw
    from .. import coder
    G = MIXED[gi]
    acc = U.A(G)
    T = [list(perm)] * 4
    tab = np.array(T, dtype=int)
    case = {'graph': gi, 'row': list(perm)}
    for start in range(4):
        R = O.reach(G, start)
        fastok = coder.no_deg3(G, R)
        for bits in U.all_bits(5, 1):
            for fast in ((False, True) if fastok else (False,)):
                st, s, _ = brun(dsw.encode, np.array(bits), acc, start, is_faster=fast, shuffles=tab)
                r.trans += 1
                r.evals += 1
                exp = O.ref_encode(bits, G, start, T, fast)
                if st != 'ok' or s != exp or not O.is_walk(G, start, s):
                    r.v('C18|digit-map|multi-step|%s|strand-not-the-walk-the-table-induces' % ('fast' if fast else 'normal'), 'walks',
                        dict(case, start=start, bits=''.join(map(str, bits))), exp, s if st == 'ok' else repr(s))
                    continue
                st, back, _ = brun(dsw.decode, s, len(bits), acc, start, is_faster=fast, shuffles=tab)
                r.trans += 1
                if st != 'ok' or not U.same_ints(back, bits):
                    r.v('C18|digit-map|multi-step|%s|decode-does-not-invert' % ('fast' if fast else 'normal'), 'walks',
                        dict(case, start=start, bits=''.join(map(str, bits))), bits, back if st == 'ok' else repr(back))
    r.states += 1
    r.nontriv += 1
    r.ctr['multi_step_tables'] += 1


def check_case(r, kind, case):
    if kind == 'walks':
        check_walks(r, case['graph'], tuple(case['row']))
        return
    if kind == 'hist':
        check_hist(r, case['history'])
        return
    if kind == 'seed':
        check_seed(r, case['k'], case['seed'])
    else:
        check_digit(r, case['pattern'], tuple(case['row']))


def _w_seed(chunk):
    r = core.Res()
    for k, seed in chunk:
        check_seed(r, k, seed)
    r.sample({'k': chunk[-1][0], 'seed': chunk[-1][1]}, 1)
    return r


def _w_walks(chunk):
    r = core.Res()
    for gi, perm in chunk:
        check_walks(r, gi, perm)
    return r


def _w_digit(chunk):
    r = core.Res()
    for p, perm in chunk:
        check_digit(r, p, perm)
    r.sample({'live_pattern': chunk[-1][0], 'row': list(chunk[-1][1])}, 1)
    return r


def run(ctx):
    from ..observe import install
    import dsw
    install([dsw.spiderweb, dsw.graphized, dsw.operation])
    # call histories first: the workers are forked before this process has made a single call
    letters = [(k, s_) for k in (range(1, 7) if ctx.quick else range(1, 8)) for s_ in ((0, 3) if ctx.quick else (0, 3, 2 ** 32 - 1))] + [(2, None)]
    hists = [list(h) for n in (2, 3) for h in itertools.product(letters, repeat=n)]
    ctx.pmap(_w_hist, core.chunks_of(hists, 24))
    ctx.guard('call histories', ctx.res.ctr['call_histories'] == len(hists))
    seeds = list(range(256 if ctx.quick else 1024)) + [2021, 2 ** 31 - 1, 2 ** 32 - 1]
    cases = [(k, s) for k in range(1, 7) for s in (seeds if k <= 4 else seeds[:16 if ctx.quick else 128] + seeds[-3:])]
    cases.sort(key=lambda c: -c[0])
    ctx.pmap(_w_seed, core.chunks_of(cases, 8))
    dig = [(p, perm) for p in range(1, 16) for perm in U.PERMS]
    ctx.pmap(_w_digit, core.chunks_of(dig, 12))
    ctx.pmap(_w_walks, core.chunks_of([(gi, perm) for gi in range(len(MIXED)) for perm in U.PERMS], 6))
    ctx.bounds = {'call_histories': 'all %d sequences of 2 and 3 calls over %d letters (k x seed, plus one seed-None call), each in its own forked process, every table compared with the same call made alone in a fresh process' % (len(hists), len(letters)), 'multi_step': '4 mixed-degree order-1 graphs x 24 constant-row tables x 4 starts x all messages of 1..5 bits', 'k': [1, 6], 'seeds': '0..%d + 2021, 2^31-1, 2^32-1 (k>=5: first %d)' % (len(seeds) - 4, 16 if ctx.quick else 128),
                  'digit_map': 'all 15 live patterns x 24 rows x every digit, both modes'}
    ctx.rule = ('one case = (k, seed): shape, rows are permutations, same seed same table also when interleaved with other '
                'seeds, fresh array, no output, module state unchanged; or one (live pattern, table row): every digit on the real '
                'encode (both modes) selects the live arc whose entry is d-th smallest, decode inverts, the set of accepted '
                'strings of length <= 2 is unchanged; non-trivial = table with two different rows / non-identity row at a branching vertex')
    ctx.assumptions = ['seeds come from a finite menu']
