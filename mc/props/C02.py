"""C02 - every emitted strand obeys the biochemical constraints it was generated for."""
import itertools
import numpy as np
from .. import core, coder, gen, oracle as O, util as U
from ..observe import run as brun
from .C11 import filt_from, user_filters
from .C12 import GC_MENU, MOTIFS

PID = 'C02'
CUT = ["AGCT", "GACGC", "CAGCAG", "GATATC", "GGTACC", "CTGCAG", "GAGCTC", "GTCGAC", "AGTACT", "ACTAGT", "GCATGC", "AGGCCT", "TCTAGA"]
NANO = ["AGA", "GAG", "CTC", "TCT"]
EXPERIMENT = [(2, ('0.5', '0.5'), CUT), (1, None, None), (None, ('0.1', '0.3'), None), (2, ('0.4', '0.6'), NANO),
              (2, ('0.4', '0.6'), None), (None, ('0.5', '0.7'), None), (3, ('0.4', '0.6'), None), (4, ('0.4', '0.6'), None),
              (3, None, None), (4, None, None), (5, None, None), (6, None, None),
              (4, ('0.1', '0.3'), ['GCC'])]


def cfg_of(desc):
    c = desc[1]
    return (c[0], c[1], tuple(c[2]) if c[2] else None, c[3])


def window_pred(desc):
    """Independent window predicate for the filter description (None when only the user's own
    predicate exists)."""
    if desc[0] == 'local':
        c = O.compile_cfg(cfg_of(desc))
        return lambda w: O.seq_ok_c(c, w)
    if desc[0] == 'table':
        acc = set(desc[1])
        return lambda w: w in acc
    if desc[0] == 'nopal':
        return lambda w: w != O.revcomp(w)
    return None


def check_ctor(r):
    """Constructor audit: every configuration the constructor accepts is window-decidable."""
    import dsw
    for k in range(1, 7):
        for run in [None] + list(range(1, k + 3)):
            long_ = 'GGATCCAG'[:k + 1] if k + 1 <= 8 else 'G' * (k + 1)
            for mot in (None, ['A' * k], ['A' * (k + 1)], ['AC'][:1] if k >= 2 else None, ['TA'[:k], long_], [long_, 'TA'[:k]],
                        ['C', long_, 'T']):
                st, f, _ = brun(dsw.LocalBioFilter, observed_length=k, max_homopolymer_runs=run, undesired_motifs=mot)
                r.trans += 1
                r.evals += 1
                dec = O.window_decidable((k, run, None, mot))
                if st == 'ok' and not dec:
                    what = 'max_homopolymer_runs==observed_length' if (run is not None and run == k and (mot is None or all(len(m) <= k for m in mot))) \
                        else 'max_homopolymer_runs>observed_length' if run is not None and run > k else 'motif-longer-than-window'
                    r.v('C02|LocalBioFilter.__init__|%s|accepted' % what, 'ctor', {'k': k, 'run': run, 'motifs': mot},
                        'ValueError (a run of run+1 / the motif cannot be seen in one window)', 'accepted')
                r.ctr['ctor_accepted' if st == 'ok' else 'ctor_rejected'] += 1


def check_pipeline(r, k, desc, t, Lmax, tables=True, max_starts=64, emit=True):
    """Real find_vertices -> connect_coding_graph for this filter, then the state invariant on every
    retained vertex and arc, then bounded encoding from retained starts."""
    import dsw
    case = {'k': k, 'filter': core._j(desc), 't': t}
    st, f, _ = brun(filt_from, desc)
    if st != 'ok':
        return
    tag, G, acc, mask = gen.gen_from_filter(k, f, t)
    r.trans += 2
    r.states += 1
    ftype = desc[0]
    pre = 'C02|%s-filter|' % ('local' if ftype == 'local' else 'user-defined')
    if tag != 'ok':
        if tag != 'ValueError':
            r.v(pre + 'generation-' + tag, 'pipe', case)
        r.ctr['no_graph'] += 1
        return
    r.ctr['graphs'] += 1
    wp = window_pred(desc)
    live = sorted(O.has_arcs(G))
    decidable = True
    if ftype == 'local':
        decidable = O.window_decidable(cfg_of(desc))
    # (a) state invariant: covers strands of every length and every message
    for v in live:
        w = O.kmer(v, k)
        r.evals += 1
        good = bool(f.valid(w)) and (wp is None or wp(w))
        if not good:
            r.v(pre + 'retained-vertex-fails-filter', 'pipe', case, 'every retained k-mer passes the filter', w)
            break
    liveset = set(live)
    for v in live:
        s = O.succ(v, k)
        bad = [j for j in range(4) if G[v][j] != -1 and (G[v][j] != s[j] or G[v][j] not in liveset)]
        if bad:
            r.v(pre + 'arc-not-shift-append-or-into-unretained-vertex', 'pipe', case, None, [v, bad])
            break
    if not emit or not live:
        return
    # (b)(c) bounded binding of the coder to the graph
    degset = {len(O.outs(G, v)) for v in live}
    fastok = 3 not in degset
    starts = live if len(live) <= max_starts else sorted(set(_range_ends(live, max_starts // 2)))
    tabs = [None] + ([U.table_latin(len(G), 1)] if tables else [])
    nl = len(live)
    for T in tabs:
        tab = None if T is None else np.array(T, dtype=int)
        for start in starts:
            sk = O.kmer(start, k)
            for bits in U.all_bits(Lmax if T is None else min(Lmax, 3), 1):
                for fast in ((False, True) if fastok else (False,)):
                    stt, s, _ = brun(dsw.encode, np.array(bits, dtype=int), acc, start, is_faster=fast, shuffles=tab,
                                     lim=coder.budget(len(bits), nl))
                    r.trans += 1
                    r.evals += 1
                    ec = dict(case, start=start, bits=''.join(map(str, bits)), fast=fast, table=T is not None)
                    if stt != 'ok' or not isinstance(s, str):
                        r.v(pre + 'encode-fails-on-generated-graph', 'emit', ec, 'a strand', repr(s)[:120])
                        continue
                    if not O.is_walk(G, start, s):
                        r.v(pre + 'strand-not-a-walk-of-the-graph', 'emit', ec, None, s)
                        continue
                    full = sk + s
                    for i in range(len(s)):
                        w = full[i + 1:i + 1 + k]
                        if not (bool(f.valid(w)) and (wp is None or wp(w))):
                            r.v(pre + 'window-of-strand-violates-filter', 'emit', ec, None, [s, w])
                            break
                    if ftype == 'local' and decidable and s:
                        a = brun(f.valid, s, only_last=False)
                        b = brun(f.valid, full, only_last=False)
                        r.trans += 2
                        if a[0] != 'ok' or not a[1]:
                            r.v(pre + 'whole-strand-fails-whole-sequence-check|len%s' % ('<k' if len(s) < k else '>=k'), 'emit', ec, True, [s, repr(a[1])])
                        if b[0] != 'ok' or not b[1]:
                            r.v(pre + 'start-kmer-plus-strand-fails-whole-sequence-check', 'emit', ec, True, [full, repr(b[1])])
                        c = O.compile_cfg(cfg_of(desc))
                        if not O.seq_ok_c(c, s) or not O.seq_ok_c(c, full):
                            r.v(pre + 'strand-fails-reference-whole-sequence-predicate', 'emit', ec, True, s)
                    r.out.add((len(s), fast))
    if len(degset) > 1:
        r.nontriv += 1


def _range_ends(live, nr):
    out = []
    n = len(live)
    for i in range(nr):
        a, b = i * n // nr, (i + 1) * n // nr
        if b > a:
            out += [live[a], live[b - 1]]
    return out


def check_case(r, kind, case):
    if kind == 'ctor':
        check_ctor(r)
        return
    d = case['filter']
    if d[0] == 'local':
        d = ['local', (d[1][0], d[1][1], tuple(d[1][2]) if d[1][2] else None, d[1][3])]
    check_pipeline(r, case['k'], d, case['t'], 5)


def menu(kmax, quick):
    out = []
    for k in range(2, kmax + 1):
        for run in [None] + list(range(1, min(k, 4))):          # window-decidable run limits
            for gc in GC_MENU:
                for mot in MOTIFS:
                    if mot is not None and any(len(x) > k for x in mot):
                        continue
                    if k >= 4 and quick and (mot not in (None, ['GC'], ['ACG', 'TT']) or gc not in (None, ('0.4', '0.6'), ('0.25', '0.75'), ('0.5', '0.5'), ('0.8', '1.0'), ('0.3', '0.5'))):
                        continue
                    if k >= 5 and (mot not in (None, ['GC']) or run == 1):
                        continue
                    out.append((k, ('local', (k, run, gc, mot))))
        out.append((k, ('nopal',)))
        for bias in (0.0, 0.1, 0.25):
            out.append((k, ('rgc', k, bias)))
        out.append((k, ('table', [O.kmer(v, k) for v in range(4 ** k) if v % 3 != 0])))
        out.append((k, ('table', [O.kmer(v, k) for v in range(4 ** k) if bin(v).count('1') % 2 == 0])))
        # predicates that are NOT invariant under reverse complement (the three above are): a one-strand motif,
        # a positional rule, a residue class, a composition skew
        out.append((k, ('table', [w for w in (O.kmer(v, k) for v in range(4 ** k)) if 'GA' not in w])))
        out.append((k, ('table', [w for w in (O.kmer(v, k) for v in range(4 ** k)) if w[0] != 'T' and w[-1] != 'G'])))
        out.append((k, ('table', [O.kmer(v, k) for v in range(4 ** k) if v % 5 != 0])))
        out.append((k, ('table', [w for w in (O.kmer(v, k) for v in range(4 ** k)) if w.count('A') >= w.count('T')])))
    return out


def experiment_menu(kmin, kmax):
    out = []
    for k in range(kmin, kmax + 1):
        for run, gc, mot in EXPERIMENT:
            cfg = (k, None if run is None else min(run, k - 1), gc, None if mot is None else [m for m in mot if len(m) <= k])
            out.append((k, ('local', cfg)))
    return out


def _w_menu(chunk):
    r = core.Res()
    Lmax, items = chunk
    for k, desc, ts in items:
        for t in ts:
            check_pipeline(r, k, desc, t, Lmax if k <= 3 else max(2, Lmax - (k - 3)), tables=(k <= 4), max_starts=64 if k <= 5 else 16)
    k, desc, ts = items[-1]
    r.sample({'k': k, 'filter': core._j(desc), 'thresholds': list(ts)}, 1)
    return r


def _w_tables(chunk):
    """All 2^16 user-defined window predicates at order 2: state invariant on the real pipeline;
    emission on the predicates with at most 2 rejected or at most 4 accepted 2-mers."""
    r = core.Res()
    lo, hi, Lmax = chunk
    kmers = [O.kmer(v, 2) for v in range(16)]
    for m in range(lo, hi):
        if m == 0:
            continue
        acc = [kmers[i] for i in range(16) if m >> i & 1]
        pc = bin(m).count('1')
        for t in (1, 2):
            check_pipeline(r, 2, ('table', acc), t, Lmax, tables=False, emit=(pc >= 14 or pc <= 4))
    r.sample({'k': 2, 'filter': 'table predicate accepting the 2-mers of mask 0x%04x' % (hi - 1), 'thresholds': [1, 2]}, 1)
    return r


def _w_ctor(_):
    r = core.Res()
    check_ctor(r)
    return r


def run(ctx):
    from ..observe import install
    import dsw
    install([dsw.spiderweb, dsw.graphized, dsw.operation, dsw.biofilter])
    ctx.pmap(_w_ctor, [0], nproc=1)
    Lmax = 5 if ctx.quick else 8
    m = [(k, d, (1, 2, 3, 4)) for k, d in menu(4 if ctx.quick else 5, ctx.quick)]
    m += [(k, d, (1, 2)) for k, d in experiment_menu(4, 6 if ctx.quick else 8)]
    # GC bounds that are awkward in binary floating point / not multiples of 1/k, at windows up to 7 (8)
    for k in (3, 5, 7) if ctx.quick else (3, 4, 5, 6, 7, 8):
        for gc in (('0.29', '0.71'), ('0.58', '0.9'), ('0.335', '0.7'), ('0.125', '0.375'), ('0.57', '1'), ('0.14', '0.45'), ('0', '0'), ('1', '1'), ('0', '0.34')):
            m.append((k, ('local', (k, None, gc, None)), (1, 2)))
            m.append((k, ('local', (k, min(2, k - 1), gc, ['GC'] if k >= 4 else None)), (2,)))
    m.sort(key=lambda x: -x[0])
    ctx.pmap(_w_menu, [(Lmax, c) for c in core.chunks_of(m, 2)])
    ctx.log('menu done', ctx.res.evals)
    ctx.pmap(_w_tables, [(lo, hi, 3 if ctx.quick else 4) for lo, hi in core.ranges(1 << 16, 512)])
    if not ctx.quick:
        big = [(k, d, (1, 2)) for k, d in experiment_menu(9, 10)]
        ctx.pmap(_w_menu, [(4, [c]) for c in big])
    ctx.bounds = {'filter_menu': len(m), 'k': [2, 6 if ctx.quick else 10], 'thresholds': [1, 2, 3, 4], 'messages_up_to': Lmax,
                  'table_predicates_k2': 'all 65535 non-empty; emission on those with <=2 rejected or <=4 accepted 2-mers'}
    ctx.rule = ('one case = (filter, k, t) through the real find_vertices -> connect_coding_graph: (a) state invariant: every retained '
                'vertex passes the filter and an independent window predicate, every arc is shift-append into a retained vertex - '
                'this covers strands of every length; (b) every strand of the bounded message set from retained starts is a walk '
                'and every window of start-k-mer + strand passes; (c) window-decidable local filters: whole-sequence check on the '
                'strand alone and prefixed; (d) constructor audit; non-trivial = generated graph with mixed out-degrees')
    ctx.assumptions = ['filters come from an enumerated menu except at order 2 where every window predicate is explored',
                       'at k >= 6 messages are encoded from 16 enumerated starts (first and last retained vertex of 8 index ranges)']
    ctx.guard('graphs generated', ctx.res.ctr['graphs'] > 1000)
