"""C10 - repair always returns."""
import itertools
import numpy as np
from .. import core, repair as RP, oracle as O, util as U

PID = 'C10'
OPTS = [(False, False, 1000), (True, True, 1000), (True, False, 1), (False, True, 1)]   # (indel, with check, heap)


def rep_case(r, k, G, acc, start, s, indel, with_chk, heap):
    chk = O.vt(s[::-1], 3) if with_chk else None        # "some" check: usually not the strand's own
    st, res, loops = RP.call(s, acc, start, k, chk=chk, indel=indel, heap=heap)
    r.trans += 1
    r.evals += 1
    first_bad = not (len(s) > 0 and G[start][O.NUC.index(s[0])] >= 0)
    pre = 'C10|k=%d|' % k
    if st == 'budget':
        r.v(pre + 'does-not-return|%s' % ('first-nucleotide-not-an-arc-of-start' if first_bad else 'other'), 'rep',
            dict(RP.gcase(k, G), start=start, s=s, indel=indel, chk=chk, heap=heap),
            'returns within %d loop iterations' % RP.budget(len(s), k, heap), 'budget exceeded')
    elif st == 'exc':
        r.v(pre + 'raised-%s' % type(res).__name__, 'rep', dict(RP.gcase(k, G), start=start, s=s, indel=indel, chk=chk, heap=heap),
            '(candidates, statistics)', repr(res)[:150])
    else:
        r.maxi('loops', loops)
        r.maxi('loops_over_budget_permille', int(1000 * loops / RP.budget(len(s), k, heap)))
        if not RP.wellformed_result(res):
            r.v(pre + 'malformed-result', 'rep', dict(RP.gcase(k, G), start=start, s=s, indel=indel, chk=chk, heap=heap),
                '(list of str, tuple of 4 numbers)', repr(res)[:150])
        else:
            r.out.add((len(res[0]) if len(res[0]) < 5 else 5, int(res[1][0])))
    if first_bad:
        r.ctr['first_nucleotide_not_an_arc'] += 1


def check_graph(r, k, G, n, starts=None):
    acc = U.A(G)
    nv = len(G)
    strings = list(U.all_strings(n, nmin=k))
    for start in (range(nv) if starts is None else starts):
        for s in strings:
            for indel, wc, heap in OPTS:
                rep_case(r, k, G, acc, start, s, indel, wc, heap)
        r.states += len(strings)
        r.nontriv += len(strings)
    r.ctr['graphs'] += 1


def check_case(r, kind, case):
    G = RP.graph_of(case)
    rep_case(r, case['k'], G, U.A(G), case['start'], case['s'], case['indel'], case['chk'] is not None, case['heap'])


def _w(chunk):
    r = core.Res()
    n_by_k, items = chunk
    for k, G, t in items:
        check_graph(r, k, G, n_by_k[k])
    k, G, t = items[-1]
    r.sample(dict(RP.gcase(k, G), strings='all ACGT strings of length %d..%d' % (k, n_by_k[k]), starts='every index 0..%d' % (len(G) - 1),
                  options='(indel, check, heap) in ' + str(OPTS)), 1)
    return r


def run(ctx):
    from ..observe import install
    import dsw
    install([dsw.spiderweb, dsw.graphized, dsw.operation, dsw.biofilter])
    q = ctx.quick
    n_by_k = {1: 4 if q else 6, 2: 4 if q else 6, 3: 4 if q else 6}
    fam = RP.k1_generated() + RP.k1_arc_family()
    pairs = list(itertools.combinations(range(4), 2))
    fam2 = RP.binary_graphs(2, pairs[:1] if q else pairs[:3])
    fam3 = RP.filter_graphs((2, 3), small=q)
    ctx.log('families', len(fam), len(fam2), len(fam3))
    items = fam + fam2 + fam3
    items.sort(key=lambda x: -(4 ** x[0]))
    ctx.pmap(_w, [(n_by_k, [c]) for c in items if c[0] >= 3] + [(n_by_k, c) for c in core.chunks_of([c for c in items if c[0] < 3], 4)])
    ctx.bounds = {'strings': 'all ACGT strings of length k..n, n = %s' % n_by_k,
                  'graphs': {'order1_generated_and_arc_deviation(<=2 removed or <=3 arcs)': len(fam),
                             'order2_binary_embedding_arc_subsets': len(fam2), 'filter_generated_k2_k3': len(fam3)},
                  'starts': 'every vertex index, retained or not', 'options': str(OPTS)}
    ctx.rule = ('one case = (graph, start index, string, options): the real repair_dna must return a well-formed (candidates, '
                'statistics) pair within the loop budget 64(n+1)(k+1)^2+64+8*min(heap,4^n)(n+2) and must not raise; states = '
                '(graph, start, string); all counted non-trivial (strings are arbitrary, mostly far from walks)')
    ctx.assumptions = ['loop budget is a fixed polynomial; observed maximum recorded under maxima (loops_over_budget_permille)']
    ctx.guard('first-nucleotide-not-an-arc situations occur', ctx.res.ctr['first_nucleotide_not_an_arc'] > 1000)
