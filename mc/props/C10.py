"""C10 - repair always returns."""
import itertools
import numpy as np
from .. import core, repair as RP, oracle as O, util as U

PID = 'C10'
_LAST = {}
OPTS = [(False, False, 1000), (True, True, 1000), (True, False, 1), (False, True, 1), (True, 'long', 1000)]   # (indel, with check, heap)


def rep_case(r, k, G, acc, start, s, indel, with_chk, heap):
    chk = (O.vt(s[::-1], 40) if with_chk == 'long' else O.vt(s[::-1], 3)) if with_chk else None        # "some" check: usually not the strand's own
    st, res, loops = RP.call(s, acc, start, k, chk=chk, indel=indel, heap=heap)
    r.trans += 1
    r.evals += 1
    first_bad = not (len(s) > 0 and G[start][O.NUC.index(s[0])] >= 0)
    pre = 'C10|k=%d|' % k
    if st == 'budget':
        r.v(pre + 'does-not-return|%s' % ('first-nucleotide-not-an-arc-of-start' if first_bad else 'other'), 'rep',
            dict(RP.gcase(k, G), start=start, s=s, indel=indel, chk=chk, heap=heap),
            'returns within %d loop iterations' % RP.budget(len(s), k, heap), 'budget exceeded')
    elif st == 'exc':
        r.v(pre + 'raised-%s' % type(res).__name__, 'rep', dict(RP.gcase(k, G), start=start, s=s, indel=indel, chk=chk, heap=heap),
            '(candidates, statistics)', repr(res)[:150])
    else:
        r.maxi('loops', loops)
        r.maxi('loops_over_budget_permille', int(1000 * loops / RP.budget(len(s), k, heap)))
        if not RP.wellformed_result(res):
            r.v(pre + 'malformed-result', 'rep', dict(RP.gcase(k, G), start=start, s=s, indel=indel, chk=chk, heap=heap),
                '(list of str, tuple of 4 numbers)', repr(res)[:150])
        else:
            r.out.add((len(res[0]) if len(res[0]) < 5 else 5, int(res[1][0])))
            if int(res[1][0]) >= 1:
                _LAST['case'] = dict(RP.gcase(k, G) if len(G) <= 16 else {'k': k}, start=start, strand=s, indel=indel, check=chk, heap=heap, loops=loops, budget=RP.budget(len(s), k, heap),
                                     candidates=list(res[0])[:3], statistics=core._j(res[1]))
    if first_bad:
        r.ctr['first_nucleotide_not_an_arc'] += 1


def check_graph(r, k, G, n, starts=None):
    acc = U.A_reuse(G)
    nv = len(G)
    strings = list(U.all_strings(n, nmin=k))
    for start in (range(nv) if starts is None else starts):
        for s in strings:
            for indel, wc, heap in OPTS:
                rep_case(r, k, G, acc, start, s, indel, wc, heap)
        r.states += len(strings)
        r.nontriv += len(strings)
    r.ctr['graphs'] += 1


def sparse_strand(k, G, start, m):
    """Walk that goes round (arc choice i+1 mod out-degree) with m isolated non-arc substitutions placed
    only where the current vertex has a single out-going arc: every error then has exactly one
    substitution candidate, so the candidate product stays 1 however many errors there are."""
    step = 2 * k + 3
    n = (m + 2) * (step + 8) + 2 * k + 2
    w = U.rule_walk(G, start, n, 1, 1)
    s, v, last, placed = list(w), start, -step, 0
    for i, c in enumerate(w):
        live = O.outs(G, v)
        if placed < m and i >= k + 1 and i - last >= step and len(live) == 1 and i < len(w) - 2 * k - 2:
            dead = [O.NUC[j] for j in range(4) if G[v][j] < 0]
            s[i] = dead[0]
            last = i
            placed += 1
        v = G[v][O.NUC.index(c)]
    return ''.join(s), placed


def sparse_case(r, k, G, start, m, indel):
    s, placed = sparse_strand(k, G, start, m)
    acc = U.A(G)
    st, res, loops = RP.call(s, acc, start, k, chk=None, indel=indel, heap=1000)
    r.trans += 1
    r.evals += 1
    r.states += 1
    r.nontriv += 1
    case = dict(RP.gcase(k, G), start=start, sparse_sites=m, indel=indel, heap=1000)
    if st == 'budget':
        r.v('C10|k=%d|does-not-return|many-single-candidate-sites' % k, 'sparse', case, None, '%d sites placed on %d nt' % (placed, len(s)))
    elif st == 'exc':
        r.v('C10|k=%d|raised-%s|many-single-candidate-sites' % (k, type(res).__name__), 'sparse', case, None, repr(res)[:150])
    elif not RP.wellformed_result(res):
        r.v('C10|k=%d|malformed-result|many-single-candidate-sites' % k, 'sparse', case, None, repr(res)[:150])
    else:
        r.maxi('sparse_sites_placed', placed)
        r.maxi('sparse_detected', int(res[1][0]))
        r.ctr['sparse_product' if int(res[1][2]) >= 1 else 'sparse_fallback'] += 1


def _w_sparse(chunk):
    r = core.Res()
    for k, G, start, m, indel in chunk:
        sparse_case(r, k, G, start, m, indel)
    return r


def sparse_jobs():
    from .C03 import tiny_closed_sets
    jobs = []
    for k in (3, 5):
        S = tiny_closed_sets(k)[0]                 # A^k and the rotations of A^(k-1)C: one branching vertex
        G = O.from_mask(O.gfp(S, k, 1), k)
        start = O.idx('A' * k)
        for m in list(range(0, 20)) + list(range(55, 80)) + [100, 130]:
            for indel in (False, True):
                jobs.append((k, G, start, m, indel))
    c = O.compile_cfg((5, 1, ('0.4', '0.6'), ['ACG', 'TGC', 'GA']))
    mask = {v for v in range(4 ** 5) if O.seq_ok_c(c, O.kmer(v, 5))}
    S = O.gfp(mask, 5, 1)
    if S:
        G = O.from_mask(S, 5)
        for m in (10, 40, 63, 64, 65, 66, 80):
            jobs.append((5, G, sorted(S)[0], m, False))
    return jobs


def long_strand(k, G, start, m):
    """Default walk (first live arc at every step) long enough for m isolated substitutions by a
    nucleotide that is not an arc, one every 2k+3 positions starting at position k+1."""
    step = 2 * k + 3
    n = (m + 1) * step + 2 * k + 2
    w = U.walks_dev(G, start, n, 0)[0]
    s, v, pos = list(w), start, 0
    sites = set(range(k + 1, k + 1 + m * step, step))
    for i, c in enumerate(w):
        if i in sites:
            dead = [O.NUC[j] for j in range(4) if G[v][j] < 0]
            if dead:
                s[i] = dead[0]
        v = G[v][O.NUC.index(c)]
    return ''.join(s)


def long_case(r, k, G, start, m, indel, heap):
    s = long_strand(k, G, start, m)
    acc = U.A(G)
    st, res, loops = RP.call(s, acc, start, k, chk=None, indel=indel, heap=heap)
    r.trans += 1
    r.evals += 1
    r.states += 1
    r.nontriv += 1
    case = dict(RP.gcase(k, G), start=start, long_sites=m, indel=indel, heap=heap)
    if st == 'budget':
        r.v('C10|k=%d|does-not-return|many-error-sites' % k, 'long', case, 'returns within %d loop iterations' % RP.budget(len(s), k, heap),
            'budget exceeded with %d isolated errors on a %d-nt walk' % (m, len(s)))
    elif st == 'exc':
        r.v('C10|k=%d|raised-%s|many-error-sites' % (k, type(res).__name__), 'long', case, None, repr(res)[:150])
    elif not RP.wellformed_result(res):
        r.v('C10|k=%d|malformed-result|many-error-sites' % k, 'long', case, None, repr(res)[:150])
    else:
        r.maxi('long_loops', loops)
        r.maxi('long_strand_nt', len(s))
        r.ctr['long_fallback' if int(res[1][2]) == 0 else 'long_product'] += 1


def _w_long(chunk):
    r = core.Res()
    for k, G, start, m, indel, heap in chunk:
        long_case(r, k, G, start, m, indel, heap)
    return r


def _w_dropped(chunk):
    """Graphs of alternating orders, each in a freshly allocated array that is released before the
    next one is built (what a loop over graphs does); a handful of repairs on each."""
    r = core.Res()
    seq = chunk
    for rnd in range(3):
        for k, G, t in seq:
            acc = np.array(G, dtype=int)
            live = sorted(O.has_arcs(G))
            start = live[rnd % len(live)]
            w = U.rule_walk(G, start, 4 * k + 6, 1, rnd)
            for s in (w, w[:k + 1] + ('A' if w[k + 1] != 'A' else 'C') + w[k + 2:], w[::-1], 'T' * (2 * k + 2)):
                if len(s) >= k:
                    rep_case(r, k, G, acc, start, s, True, False, 1000)
                    rep_case(r, k, G, acc, start, s, False, True, 1000)
            del acc
            r.ctr['dropped_arrays'] += 1
    return r


def long_jobs(quick):
    from ..coder import LITERAL
    graphs = [(2, [list(x) for x in LITERAL], 1), (1, O.from_mask({0, 1}, 1), 0), (1, O.from_mask({0, 1, 2}, 1), 2)]
    c = O.compile_cfg((3, 2, None, ['GC']))
    mask = {v for v in range(64) if O.seq_ok_c(c, O.kmer(v, 3))}
    G3 = O.from_mask(O.gfp(mask, 3, 2), 3)
    graphs.append((3, G3, sorted(O.has_arcs(G3))[0]))
    jobs = []
    for k, G, start in graphs:
        for m in range(0, 131 if k <= 2 else 71):
            opts = ((False, 1000), (True, 1000)) if (quick and m > 12) else ((False, 1000), (True, 1000), (True, 1), (False, 5000))
            if m <= 45:      # heap limits that a prefix of the candidate product hits exactly
                opts = opts + ((False, 2), (False, 8), (False, 16), (False, 64), (False, 27), (False, 81), (True, 49), (True, 12))
            for indel, heap in opts:
                if heap == 5000 and m > 12:
                    continue
                jobs.append((k, G, start, m, indel, heap))
    return jobs


def check_case(r, kind, case):
    G = RP.graph_of(case)
    if kind == 'long':
        long_case(r, case['k'], G, case['start'], case['long_sites'], case['indel'], case['heap'])
        return
    if kind == 'sparse':
        sparse_case(r, case['k'], G, case['start'], case['sparse_sites'], case['indel'])
        return
    rep_case(r, case['k'], G, U.A(G), case['start'], case['s'], case['indel'], ('long' if case['chk'] is not None and len(case['chk']) > 10 else case['chk'] is not None), case['heap'])


def _w(chunk):
    r = core.Res()
    n_by_k, items = chunk
    for k, G, t in items:
        if core.expired():
            r.caps.append('deadline reached inside a chunk')
            break
        check_graph(r, k, G, n_by_k[k])
    k, G, t = items[-1]
    r.sample(_LAST.get('case') or dict(RP.gcase(k, G), strings='all ACGT strings of length %d..%d' % (k, n_by_k[k])), 1)
    return r


def run(ctx):
    from ..observe import install
    import dsw
    install([dsw.spiderweb, dsw.graphized, dsw.operation, dsw.biofilter])
    q = ctx.quick
    n_by_k = {1: 4 if q else 6, 2: 4 if q else 6, 3: 4 if q else 6}
    fam = RP.k1_generated() + RP.k1_arc_family()
    pairs = list(itertools.combinations(range(4), 2))
    fam2 = RP.binary_graphs(2, pairs[:1] if q else pairs[:3])
    fam3 = RP.filter_graphs((2, 3), small=q)
    ctx.log('families', len(fam), len(fam2), len(fam3))
    items = fam + fam2 + fam3
    items.sort(key=lambda x: -(4 ** x[0]))
    ctx.pmap(_w, [(n_by_k, [c]) for c in items if c[0] >= 3] + [(n_by_k, c) for c in core.chunks_of([c for c in items if c[0] < 3], 4)])
    ctx.pmap(_w_long, core.chunks_of(long_jobs(q), 6))
    by_k = {}
    for it in fam3 + RP.k1_generated()[:6] + RP.filter_graphs((4,), small=True)[:3]:
        by_k.setdefault(it[0], []).append(it)
    seqs = []
    for i in range(4):
        seqs.append([by_k[k][(i + j) % len(by_k[k])] for j, k in enumerate((4, 3, 2, 1, 3, 2, 4, 1, 2)) if k in by_k])
    ctx.pmap(_w_dropped, seqs)
    ctx.pmap(_w_sparse, core.chunks_of(sparse_jobs(), 4))
    ctx.guard('more than 64 single-candidate errors repaired through the product path', ctx.res.mx.get('sparse_detected', 0) > 64 and ctx.res.ctr['sparse_product'] > 10)
    ctx.guard('long family takes both return paths', ctx.res.ctr['long_fallback'] > 10 and ctx.res.ctr['long_product'] > 10)
    ctx.bounds = {'long_family': 'default walks with m isolated non-arc substitutions, every m in 0..130 (k<=2) / 0..70 (k=3), default heap: the candidate product must be cut off',
                  'strings': 'all ACGT strings of length k..n, n = %s' % n_by_k,
                  'graphs': {'order1_generated_and_arc_deviation(<=2 removed or <=3 arcs)': len(fam),
                             'order2_binary_embedding_arc_subsets': len(fam2), 'filter_generated_k2_k3': len(fam3)},
                  'starts': 'every vertex index, retained or not', 'options': str(OPTS)}
    ctx.rule = ('one case = (graph, start index, string, options): the real repair_dna must return a well-formed (candidates, '
                'statistics) pair within the loop budget 64(n+1)(k+1)^2+64+8*min(heap,4^n)(n+2) and must not raise; states = '
                '(graph, start, string); all counted non-trivial (strings are arbitrary, mostly far from walks)')
    ctx.assumptions = ['loop budget is a fixed polynomial; observed maximum recorded under maxima (loops_over_budget_permille)']
    ctx.guard('first-nucleotide-not-an-arc situations occur', ctx.res.ctr['first_nucleotide_not_an_arc'] > 1000)
