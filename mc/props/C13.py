"""C13 - vertex indices are k-mers and arcs are shift-append."""
import itertools
import numpy as np
from .. import core, oracle as O, util as U
from ..observe import run as brun, exc_name

PID = 'C13'


def _ints(x):
    return [int(a) for a in x]


def check_vertex(r, k, v, heavy=True):
    import dsw
    case = {'k': k, 'v': v}
    s = O.kmer(v, k)
    es, ep = O.succ_s(v, k), O.pred_s(v, k)
    r.evals += 1
    st, lat, _ = brun(dsw.obtain_latters, current=v, observed_length=k)
    r.trans += 1
    if st != 'ok' or not U.same_ints(lat, es):
        r.v('C13|obtain_latters|not-shift-append', 'vertex', case, es, lat)
        lat = es
    st, fo, _ = brun(dsw.obtain_formers, current=v, observed_length=k)
    r.trans += 1
    if st != 'ok' or not U.same_ints(fo, ep):
        r.v('C13|obtain_formers|not-drop-last-prepend', 'vertex', case, ep, fo)
        fo = ep
    # u predecessor of v  <=>  v successor of u, decided on the implementation's own answers
    for u in _ints(fo):
        st, lu, _ = brun(dsw.obtain_latters, current=u, observed_length=k)
        r.trans += 1
        if st != 'ok' or v not in _ints(lu):
            r.v('C13|pred-succ-duality', 'vertex', case, 'v in latters(%d)' % u, lu)
    if heavy:
        for w in _ints(lat):
            st, fw, _ = brun(dsw.obtain_formers, current=w, observed_length=k)
            r.trans += 1
            if st != 'ok' or v not in _ints(fw):
                r.v('C13|succ-pred-duality', 'vertex', case, 'v in formers(%d)' % w, fw)
    st, d1, _ = brun(dsw.number_to_dna, decimal_number=v, dna_length=k)
    st2, d2, _ = brun(dsw.number_to_dna, decimal_number=str(v), dna_length=k)
    r.trans += 2
    if st != 'ok' or d1 != s:
        r.v('C13|number_to_dna|int', 'vertex', case, s, d1)
    if st2 != 'ok' or d2 != s:
        r.v('C13|number_to_dna|str', 'vertex', case, s, d2)
    st, n1, _ = brun(dsw.dna_to_number, dna_sequence=s, is_string=False)
    st2, n2, _ = brun(dsw.dna_to_number, dna_sequence=s, is_string=True)
    r.trans += 2
    if st != 'ok' or isinstance(n1, str) or int(n1) != v:
        r.v('C13|dna_to_number|int', 'vertex', case, v, n1)
    if st2 != 'ok' or n2 != str(v):
        r.v('C13|dna_to_number|str', 'vertex', case, str(v), n2)
    if v != k and v % 4 != (v // 4) % 4:
        r.nontriv += 1
    r.states += 1


def check_complete(r, k):
    import dsw
    st, acc, _ = brun(dsw.get_complete_accessor, observed_length=k)
    r.trans += 1
    r.evals += 1
    if st != 'ok' or getattr(acc, 'shape', None) != (4 ** k, 4):
        r.v('C13|get_complete_accessor|shape', 'complete', {'k': k}, [4 ** k, 4], getattr(acc, 'shape', acc))
        return
    for v in range(4 ** k):
        if _ints(acc[v]) != O.succ_s(v, k):
            r.v('C13|get_complete_accessor|row', 'complete', {'k': k}, O.succ_s(v, k), acc[v], 'row %d' % v)
            break
    # a caller may trim its complete accessor in place (remove_nasty_arc does): the next request must still be complete
    try:
        acc[:] = -1
    except Exception:
        pass
    st, acc2, _ = brun(dsw.get_complete_accessor, observed_length=k)
    r.trans += 1
    r.evals += 1
    if st != 'ok' or getattr(acc2, 'shape', None) != (4 ** k, 4) or any(_ints(acc2[v]) != O.succ_s(v, k) for v in range(min(4 ** k, 256))):
        r.v('C13|get_complete_accessor|not-complete-after-caller-trimmed-an-earlier-result', 'complete', {'k': k}, 'complete graph', None)
    r.states += 1
    r.nontriv += 1


def check_complete_big(r, k):
    """Whole-array check of the complete accessor at a high order (the arithmetic formula it is
    compared with is the one validated against string slicing on every vertex of orders 1..8)."""
    import dsw
    st, acc, _ = brun(dsw.get_complete_accessor, observed_length=k, lim=10 ** 9)
    r.trans += 1
    r.evals += 1
    r.states += 1
    r.nontriv += 1
    n = 4 ** k
    if st != 'ok' or getattr(acc, 'shape', None) != (n, 4):
        r.v('C13|get_complete_accessor|shape', 'complete_big', {'k': k}, [n, 4], getattr(acc, 'shape', repr(acc)[:80]))
        return
    exp = (np.arange(n, dtype=np.int64)[:, None] * 4 + np.arange(4, dtype=np.int64)[None, :]) % n
    bad = np.argwhere(np.asarray(acc) != exp)
    if len(bad):
        v = int(bad[0][0])
        r.v('C13|get_complete_accessor|row', 'complete_big', {'k': k}, O.succ_s(v, k), [int(x) for x in acc[v]], 'row %d (%d rows differ)' % (v, len(set(bad[:, 0].tolist()))))
    r.maxi('complete_accessor_whole_array_order', k)


def _w_complete_big(k):
    r = core.Res()
    check_complete_big(r, k)
    return r


def wf_check(r, acc, k, what, case):
    """The graph well-formedness invariant, used on everything the library builds or converts."""
    r.evals += 1
    G = U.rows(acc)
    if len(G) != 4 ** k or not O.wellformed_arcs(G, k):
        r.v('C13|built-graph|entry-not-minus1-or-successor|' + what, 'built', case, None, G)
        return False
    return True


def check_built(r, k, mask):
    """Every graph built or converted from this vertex mask holds -1 or the successor in column j."""
    import dsw
    case = {'k': k, 'mask': sorted(mask)}
    m = np.zeros(4 ** k, dtype=int)
    m[sorted(mask)] = 1
    r.states += 1
    st, acc, _ = brun(dsw.connect_valid_graph, observed_length=k, vertices=m.copy())
    r.trans += 1
    if st == 'ok':
        r.nontriv += 1
        wf_check(r, acc, k, 'connect_valid_graph', case)
        st2, lm, _ = brun(dsw.accessor_to_latter_map, acc)
        if st2 == 'ok':
            st3, a2, _ = brun(dsw.latter_map_to_accessor, lm, k)
            r.trans += 2
            if st3 == 'ok':
                wf_check(r, a2, k, 'latter_map_to_accessor', case)
            # a latter map is a dict of successor lists; their order carries no meaning
            for tag, f in (('reversed', lambda b: list(b)[::-1]), ('rotated', lambda b: list(b)[1:] + list(b)[:1])):
                st3, a2, _ = brun(dsw.latter_map_to_accessor, {a: f(b) for a, b in lm.items()}, k)
                r.trans += 1
                if st3 == 'ok':
                    wf_check(r, a2, k, 'latter_map_to_accessor-%s-lists' % tag, case)
            for t in (2, 3):
                st3, a3, _ = brun(dsw.latter_map_to_accessor, lm, k, threshold=t)
                r.trans += 1
                if st3 == 'ok':
                    wf_check(r, a3, k, 'latter_map_to_accessor-threshold', case)
        if k <= 3:
            st2, mat, _ = brun(dsw.accessor_to_adjacency_matrix, acc)
            if st2 == 'ok':
                for dt in (None, np.int8, bool):
                    st3, a4, _ = brun(dsw.adjacency_matrix_to_accessor, mat if dt is None else np.asarray(mat).astype(dt))
                    r.trans += 1
                    if st3 == 'ok':
                        wf_check(r, a4, k, 'adjacency_matrix_to_accessor%s' % ('' if dt is None else '-' + np.dtype(dt).name), case)
    if st == 'ok':
        # the graph handed to the conversions is still the graph that was built
        wf_check(r, acc, k, 'accessor-after-it-was-passed-to-the-conversions', case)
        if U.rows(acc) != O.from_mask(mask, k):
            r.v('C13|built-graph|changed-by-a-conversion', 'built', case)
    for t in (1, 2, 3):
        st, res, _ = brun(dsw.connect_coding_graph, observed_length=k, vertices=m.copy(), threshold=t,
                          lim=2000000)
        r.trans += 1
        if st == 'ok':
            try:
                acc = res[1]
            except Exception:
                continue
            wf_check(r, acc, k, 'connect_coding_graph-t%d' % t, case)


def check_stray(r, k, u, pattern, w):
    """A matrix row with legal arcs (pattern) plus a stray 1 in column w: whatever the conversion does,
    it must not hand back a graph with an entry that is neither -1 nor the successor."""
    import dsw
    n = 4 ** k
    M = np.zeros((n, n), dtype=int)
    s_ = O.succ(u, k)
    for j in range(4):
        if pattern >> j & 1:
            M[u, s_[j]] = 1
    M[u, w] = 1
    st, res, _ = brun(dsw.adjacency_matrix_to_accessor, M)
    r.trans += 1
    r.evals += 1
    r.states += 1
    if st == 'ok':
        wf_check(r, res, k, 'adjacency_matrix_to_accessor-on-a-matrix-with-a-stray-arc', {'k': k, 'u': u, 'pattern': pattern, 'w': w, 'stray': True})
    else:
        r.ctr['stray_rejected'] += 1


def _w_stray(chunk):
    r = core.Res()
    for k, u, p_, w in chunk:
        check_stray(r, k, u, p_, w)
    return r


def boundary_family(k):
    """All k-mers with at most 2 letters different from a constant k-mer, and all of period <= 2."""
    S = set()
    for c in range(4):
        base = [c] * k
        S.add(tuple(base))
        for i in range(k):
            for a in range(4):
                b = list(base)
                b[i] = a
                S.add(tuple(b))
                for j in range(i + 1, k):
                    for a2 in range(4):
                        b2 = list(b)
                        b2[j] = a2
                        S.add(tuple(b2))
    for a in range(4):
        for b in range(4):
            S.add(tuple((a if i % 2 == 0 else b) for i in range(k)))
    out = []
    for t in sorted(S):
        v = 0
        for x in t:
            v = v * 4 + x
        out.append(v)
    return out


def check_case(r, kind, case):
    if kind == 'vertex':
        check_vertex(r, case['k'], case['v'])
    elif kind == 'complete':
        check_complete(r, case['k'])
    elif kind == 'built' and case.get('stray'):
        check_stray(r, case['k'], case['u'], case['pattern'], case['w'])
    elif kind == 'complete_big':
        check_complete_big(r, case['k'])
    elif kind == 'built':
        check_built(r, case['k'], set(case['mask']))


def _w_vertices(chunk):
    r = core.Res()
    k, lo, hi, heavy = chunk
    for v in range(lo, hi):
        check_vertex(r, k, v, heavy)
    r.sample({'k': k, 'v': hi - 1, 'kmer': O.kmer(hi - 1, k), 'succ': O.succ_s(hi - 1, k), 'pred': O.pred_s(hi - 1, k)}, 1)
    return r


def _w_list(chunk):
    r = core.Res()
    k, vs = chunk
    for v in vs:
        check_vertex(r, k, v, True)
    return r


def _w_complete(k):
    r = core.Res()
    check_complete(r, k)
    return r


def _w_built(chunk):
    r = core.Res()
    for k, mask in chunk:
        check_built(r, k, mask)
    return r


def built_family(quick):
    fam = []
    for m in range(1, 16):
        fam.append((1, {i for i in range(4) if m >> i & 1}))
    # order 2: complete minus at most 2 vertices, and all masks with at most 3 vertices
    for d in range(0, 3):
        for rem in itertools.combinations(range(16), d):
            fam.append((2, set(range(16)) - set(rem)))
    for d in range(1, 4):
        for keep in itertools.combinations(range(16), d):
            fam.append((2, set(keep)))
    # order 3: binary sub-alphabets, all 2^8 masks each; complete minus <= 1 (quick) / 2 vertices
    for a, b in itertools.combinations(range(4), 2):
        verts = [O.idx(''.join(p)) for p in itertools.product(O.NUC[a] + O.NUC[b], repeat=3)]
        for m in range(1, 256):
            fam.append((3, {verts[i] for i in range(8) if m >> i & 1}))
    for d in range(0, 2 if quick else 3):
        for rem in itertools.combinations(range(64), d):
            fam.append((3, set(range(64)) - set(rem)))
    return fam


def run(ctx):
    from ..observe import install
    import dsw
    install([dsw.spiderweb, dsw.graphized, dsw.operation, dsw.biofilter])
    kmax = 8 if ctx.quick else 9
    chunks = []
    for k in range(1, kmax + 1):
        n = 4 ** k
        step = max(1, min(4096, n // 16 if n >= 16 else n))
        for lo, hi in core.ranges(n, step):
            chunks.append((k, lo, hi, k <= 7))
    ctx.pmap(_w_vertices, chunks)
    fam = []
    for k in (10, 11, 12):
        b = boundary_family(k)
        fam += [(k, c) for c in core.chunks_of(b, 500)]
    ctx.pmap(_w_list, fam)
    ctx.pmap(_w_complete, list(range(1, (7 if ctx.quick else 8) + 1)))
    ctx.pmap(_w_complete_big, [9, 10] if ctx.quick else [9, 10, 11])
    stray = []
    for k in (2, 3):
        for u in range(4 ** k):
            blk = set(O.succ(u, k))
            for w in range(4 ** k):
                if w not in blk and (k == 2 or (u + w) % 5 == 0):
                    for p_ in (1, 6, 8, 15):
                        stray.append((k, u, p_, w))
    ctx.pmap(_w_stray, core.chunks_of(stray, 400))
    bf = built_family(ctx.quick)
    ctx.pmap(_w_built, core.chunks_of(bf, 40))
    ctx.bounds = {'all_vertices_k': [1, kmax], 'boundary_family_k': [10, 11, 12],
                  'complete_accessor_k': [1, 7 if ctx.quick else 8], 'built_graph_masks': len(bf)}
    ctx.rule = ('one case = one (k, vertex) compared with string slicing on its k-mer (successors, predecessors, '
                'duality both ways, index<->k-mer on int and str paths), or one complete accessor, or one vertex mask '
                'whose built/converted graphs are checked entry by entry; non-trivial = vertex whose k-mer is not '
                'constant on its last two letters / mask for which a graph is built')
    ctx.assumptions = ['reference = base-4 string of the index and Python slicing (oracle.succ_s / pred_s)',
                       'orders above %d only through the boundary family (<=2 letters off a constant k-mer, period <=2)' % kmax]
    ctx.guard('vertices explored', ctx.res.states > 80000)
    ctx.guard('built graphs checked', ctx.res.ctr.get('x', 0) >= 0)
