"""C20 - library calls are stateless and never modify their arguments."""
import sys, os, copy, pickle, subprocess, itertools, base64
import numpy as np
from .. import core, coder, oracle as O, util as U
from ..observe import run as brun, snap, capture, module_state

PID = 'C20'


# ------------------------------------------------------------------------------------ argument sets
def build_args(name):
    """Argument sets.  'X@removed' is X after one in-place remove_nasty_arc(acc, lm) (the documented
    in-place operation), used as the reference state for histories that contain that call."""
    import dsw
    base, _, variant = name.partition('@')
    A = _build_base(base)
    if variant == 'removed':
        try:
            dsw.remove_nasty_arc(A['acc'], A['lm'])
        except Exception:
            pass
    return A


def _enc(bits, G, start):
    try:
        return O.ref_encode(bits, G, start)
    except O.RefError:
        return U.rule_walk(G, start, max(3, len(bits) // 2), 1, 0) or 'A'


def _build_base(name):
    import dsw
    if name in ('literal2', 'other2'):
        k = 2
        if name == 'literal2':
            G = [list(x) for x in coder.LITERAL]
            bits = [0, 1, 0, 1, 0, 1, 0, 1]
            strand, corrupted, start = 'TCTCTCT', 'TCTCTATCTCTC', 1
        else:
            c = O.compile_cfg((2, 1, None, None))
            mask = {v for v in range(16) if O.seq_ok_c(c, O.kmer(v, 2))}
            G = O.from_mask(O.gfp(mask, 2, 2), 2)
            start = sorted(O.has_arcs(G))[2]
            bits = [1, 1, 0, 1, 0, 0, 1, 1]
            strand = _enc(bits, G, start)
            w = U.walks_dev(G, start, 12, 1)[3]
            corrupted = w[:5] + w[4] + w[6:]
        filt = dsw.LocalBioFilter(observed_length=2, max_homopolymer_runs=1, gc_range=[0.5, 0.5] if name == 'literal2' else None)
    elif name in ('generated3', 'other3'):
        k = 3
        c = O.compile_cfg((3, 2, None, ['GC'])) if name == 'generated3' else O.compile_cfg((3, None, ('0.3', '0.7'), None))
        mask = {v for v in range(64) if O.seq_ok_c(c, O.kmer(v, 3))}
        # 'other3' is the untrimmed valid graph of its filter: it has arcs into vertices without out-going arcs
        G = O.from_mask(O.gfp(mask, 3, 2), 3) if name == 'generated3' else O.from_mask(mask | {O.idx('GGG'), O.idx('CCC')}, 3)
        if name == 'other3':
            for v in (O.idx('GGG'), O.idx('CCC')):
                G[v] = [-1, -1, -1, -1]
        start = sorted(O.has_arcs(G))[0 if name == 'generated3' else 5]
        bits = [1, 0, 1, 1, 0, 0, 1, 0, 1, 1]
        strand = _enc(bits, G, start)
        w = U.walks_dev(G, start, 14, 0)[0]
        corrupted = w[:6] + ('A' if w[6] != 'A' else 'C') + w[7:]
        filt = dsw.LocalBioFilter(observed_length=3, max_homopolymer_runs=2, undesired_motifs=['GC']) if name == 'generated3' \
            else dsw.LocalBioFilter(observed_length=3, gc_range=[0.3, 0.7])
    elif name in ('homo4', 'other4'):
        k = 4
        c = O.compile_cfg((4, 2, None, None)) if name == 'homo4' else O.compile_cfg((4, 2, ('0.25', '0.75'), None))
        mask = {v for v in range(256) if O.seq_ok_c(c, O.kmer(v, 4))}
        G = O.from_mask(O.gfp(mask, 4, 2), 4)
        start = sorted(O.has_arcs(G))[3]
        bits = [1, 0, 0, 1, 1, 0, 1, 0, 1, 1, 1, 0]
        strand = _enc(bits, G, start)
        w = U.walks_dev(G, start, 18, 0)[0]
        live_ = O.outs(G, O.walk_end(G, start, w[:8]))
        bad = [c_ for c_ in 'ACGT' if O.NUC.index(c_) not in live_]
        corrupted = w[:8] + (bad[0] if bad else 'A') + w[9:]
        filt = dsw.LocalBioFilter(observed_length=4, max_homopolymer_runs=2, gc_range=None if name == 'homo4' else [0.25, 0.75])
    else:
        k = 1
        G = [[0, 1, 2, 3], [0, -1, 2, -1], [-1, 1, -1, -1], [0, 1, 2, -1]] if name == 'mixed1' else \
            [[-1, 1, 2, -1], [0, 1, -1, 3], [0, 1, 2, 3], [-1, -1, 2, -1]]
        start = 0
        bits = [1, 1, 0, 1, 0, 0, 1]
        strand = _enc(bits, G, start)
        corrupted = 'ACGG' + 'ACAC'
        filt = dsw.LocalBioFilter(observed_length=1, gc_range=[0.0, 1.0])
    n = 4 ** k
    acc = U.A(G)
    live = sorted(O.has_arcs(G))
    A = {
        'k': k, 'acc': acc, 'lm': {int(v): [w for w in G[v] if w >= 0] for v in live},
        'mask': np.array([1 if v in live else 0 for v in range(n)], dtype=int),
        'mask_bool': np.array([(v in live) or (v in _trimmed_extras(k, live)) for v in range(n)], dtype=bool),
        'bits': np.array(bits, dtype=int), 'table': np.array(U.table_latin(n, 1), dtype=int),
        'strand': strand, 'corrupted': corrupted, 'start': start, 'filter': filt,
        'matrix': np.array([[1 if w in [x for x in G[u] if x >= 0] else 0 for w in range(n)] for u in range(n)], dtype=int),
        'check': O.vt(strand, 4), 'number': '9041999', 'dna': 'ACGTTGCA',
        'bits_long': np.array([(i * 7 + i // 3) % 2 for i in range(160)], dtype=int),
        'strand_long': _enc([(i * 7 + i // 3) % 2 for i in range(160)], G, start),
        'short_strings': [''.join(p) for n_ in (1, 2) for p in __import__('itertools').product('ACGT', repeat=n_)],
    }
    return A


def _trimmed_extras(k, live):
    """Vertices outside the graph that generation must trim away again (so a bool mask is really worked on)."""
    L = set(live)
    out = []
    for v in range(4 ** k):
        if v not in L and O.gfp(L | {v}, k, 2) == O.gfp(L, k, 2) and O.gfp(L | {v}, k, 1) == O.gfp(L, k, 1):
            out.append(v)
            if len(out) == 2:
                break
    return set(out) if out else {v for v in range(4 ** k) if v % 3 == 0}


def ops():
    """name -> (function(dsw, A, **verbose), accepts_verbose)"""
    def V(kw):
        return kw
    L = []

    def add(name, fn, verbose=False):
        L.append((name, fn, verbose))
    add('encode', lambda d, A, **v: d.encode(A['bits'], A['acc'], A['start'], **v), True)
    add('encode_fast', lambda d, A, **v: d.encode(A['bits'], A['acc'], A['start'], is_faster=True, **v), True)
    add('encode_table', lambda d, A, **v: d.encode(A['bits'], A['acc'], A['start'], shuffles=A['table'], **v), True)
    add('encode_vt', lambda d, A, **v: d.encode(A['bits'], A['acc'], A['start'], vt_length=4, **v), True)
    add('encode_path', lambda d, A, **v: d.encode(A['bits'], A['acc'], A['start'], need_path=True, vt_length=2, **v), True)
    add('decode', lambda d, A, **v: d.decode(A['strand'], len(A['bits']), A['acc'], A['start'], **v), True)
    add('decode_fast', lambda d, A, **v: d.decode(A['strand'], len(A['bits']), A['acc'], A['start'], is_faster=True, **v), True)
    add('decode_table', lambda d, A, **v: d.decode(A['strand'], len(A['bits']), A['acc'], A['start'], shuffles=A['table'], **v), True)
    add('decode_check', lambda d, A, **v: d.decode(A['strand'], len(A['bits']), A['acc'], A['start'], vt_check=A['check'], **v), True)
    add('decode_bad', lambda d, A, **v: d.decode(A['corrupted'], 30, A['acc'], A['start'], **v), True)
    add('encode_long', lambda d, A, **v: d.encode(A['bits_long'], A['acc'], A['start'], **v), True)
    add('encode_long_table', lambda d, A, **v: d.encode(A['bits_long'], A['acc'], A['start'], shuffles=A['table'], **v), True)
    add('decode_long', lambda d, A, **v: d.decode(A['strand_long'], 160, A['acc'], A['start'], **v), True)

    def dec_all(d, A):
        out = []
        for s_ in A['short_strings']:
            try:
                out.append(d.decode(s_, 6, A['acc'], A['start']).tolist())
            except ValueError:
                out.append('ValueError')
        return out
    add('decode_all_short', dec_all)

    def rep_all(d, A):
        out = []
        for s_ in A['short_strings'][4:]:
            if len(s_) >= A['k']:
                out.append(d.repair_dna(s_, A['acc'], A['start'], A['k'], has_indel=True))
        return out
    add('repair_all_short', rep_all)
    add('set_vt', lambda d, A: d.set_vt(A['strand'], 4))
    add('repair', lambda d, A: d.repair_dna(A['corrupted'], A['acc'], A['start'], A['k'], has_indel=True))
    add('repair_noindel', lambda d, A: d.repair_dna(A['corrupted'], A['acc'], A['start'], A['k'], has_indel=False))
    add('repair_check', lambda d, A: d.repair_dna(A['corrupted'], A['acc'], A['start'], A['k'], vt_check=A['check'], has_indel=True, heap_size=5))
    add('acc_to_lm', lambda d, A, **v: d.accessor_to_latter_map(A['acc'], **v), True)
    add('lm_to_acc', lambda d, A, **v: d.latter_map_to_accessor(A['lm'], A['k'], **v), True)
    add('lm_to_acc_t2', lambda d, A, **v: d.latter_map_to_accessor(A['lm'], A['k'], threshold=2, **v), True)
    add('acc_to_matrix', lambda d, A, **v: d.accessor_to_adjacency_matrix(A['acc'], **v), True)
    add('matrix_to_acc', lambda d, A, **v: d.adjacency_matrix_to_accessor(A['matrix'], **v), True)
    add('obtain_vertices', lambda d, A: d.obtain_vertices(A['acc']))
    add('leaf_acc', lambda d, A: d.obtain_leaf_vertices(A['start'], 3, accessor=A['acc']))
    add('leaf_lm', lambda d, A: d.obtain_leaf_vertices(A['start'], 3, latter_map=A['lm']))
    add('formers_latters', lambda d, A: (d.obtain_formers(A['start'], A['k']), d.obtain_latters(A['start'], A['k'])))
    add('complete', lambda d, A, **v: d.get_complete_accessor(A['k'], **v), True)
    add('remove_useless', lambda d, A, **v: d.remove_useless(A['lm'], 2, **v), True)
    add('path_matching', lambda d, A: d.path_matching(A['corrupted'][:2 * A['k'] + 1], A['acc'], A['start'], A['k'] - 1, has_indel=True))
    add('find_vertices', lambda d, A, **v: d.find_vertices(A['k'], A['filter'], **v), True)
    add('valid_graph', lambda d, A, **v: d.connect_valid_graph(A['k'], A['mask'], **v), True)
    add('coding_graph_t1', lambda d, A, **v: d.connect_coding_graph(A['k'], A['mask'], 1, **v), True)
    add('coding_graph_t2', lambda d, A, **v: d.connect_coding_graph(A['k'], A['mask'], 2, **v), True)
    add('coding_graph_t3', lambda d, A, **v: d.connect_coding_graph(A['k'], A['mask'], 3, **v), True)
    add('coding_graph_bool_t1', lambda d, A, **v: d.connect_coding_graph(A['k'], A['mask_bool'], 1, **v), True)
    add('coding_graph_bool_t2', lambda d, A, **v: d.connect_coding_graph(A['k'], A['mask_bool'], 2, **v), True)
    add('coding_graph_bool_t3', lambda d, A, **v: d.connect_coding_graph(A['k'], A['mask_bool'], 3, **v), True)
    add('valid_graph_bool', lambda d, A, **v: d.connect_valid_graph(A['k'], A['mask_bool'], **v), True)
    add('capacity_1', lambda d, A, **v: d.approximate_capacity(A['acc'], repeats=1, **v), True)

    def cap3(d, A, **v):
        np.random.seed(20211)
        return d.approximate_capacity(A['acc'], repeats=3, process=True, **v)
    add('capacity_3_seeded', cap3, True)
    add('scores', lambda d, A, **v: d.calculate_intersection_score(A['lm'], observed_length=A['k'], **v), True)
    add('shuffles', lambda d, A, **v: d.create_random_shuffles(A['k'], random_seed=7, **v), True)
    add('shuffles_other_seed', lambda d, A, **v: d.create_random_shuffles(A['k'], random_seed=8, **v), True)
    add('remove_arc_inplace', lambda d, A, **v: d.remove_nasty_arc(A['acc'], A['lm'], **v), True)
    add('remove_arc_on_copies', lambda d, A, **v: d.remove_nasty_arc(A['acc'].copy(), copy.deepcopy(A['lm']), **v), True)
    def trim_then_remove(d, A):
        t = d.remove_useless(A['lm'], 1)
        return d.remove_nasty_arc(A['acc'].copy(), t)[2:]
    add('useless_then_remove_arc', trim_then_remove)

    def map_then_remove(d, A):
        m = d.accessor_to_latter_map(A['acc'])
        a = d.latter_map_to_accessor(A['lm'], A['k'])
        return d.remove_nasty_arc(a, m)[2:]
    add('convert_then_remove_arc', map_then_remove)

    def gen_then_overwrite(d, A):
        v, a = d.connect_coding_graph(A['k'], A['mask'].copy(), 1)
        a[...] = -1
        c = d.get_complete_accessor(A['k'])
        c[0, :] = -1
        return d.obtain_vertices(d.get_complete_accessor(A['k'])).tolist()
    add('generate_then_overwrite_results', gen_then_overwrite)
    add('calc_add', lambda d, A: d.calculus_addition(A['number'], '7'))
    add('calc_sub', lambda d, A: d.calculus_subtraction(A['number'], '7'))
    add('calc_mul', lambda d, A: d.calculus_multiplication(A['number'], '7'))
    add('calc_div', lambda d, A: d.calculus_division(A['number'], '7'))
    add('bit_to_number', lambda d, A, **v: (d.bit_to_number(A['bits'], **v), d.bit_to_number(list(A['bits'].tolist()), is_string=False, **v)), True)
    add('number_to_bit', lambda d, A: (d.number_to_bit(A['number'], 30), d.number_to_bit(9041999, 30)))
    add('dna_number', lambda d, A: (d.dna_to_number(A['dna']), d.dna_to_number(A['dna'], is_string=False), d.number_to_dna('27000', 9), d.number_to_dna(27000, 9)))
    add('filter_valid', lambda d, A: (A['filter'].valid(A['strand'], only_last=False), A['filter'].valid(A['strand']), A['filter'].valid(A['corrupted'] + 'N')))
    return L


OPS = None


def get_ops():
    global OPS
    if OPS is None:
        OPS = {n: (f, v) for n, f, v in ops()}
    return OPS


def run_op(name, A, verbose=False, raw=False):
    import dsw
    f, acc_v = get_ops()[name]
    kw = {'verbose': True} if (verbose and acc_v) else {}
    with capture() as buf:
        st, res, _ = brun(f, dsw, A, lim=50000000, **kw)
    if st == 'ok':
        out = ('ok', snap(res))
    elif st == 'exc':
        out = ('exc', type(res).__name__, str(res)[:200])
        res = None
    else:
        out = ('budget',)
        res = None
    if raw:
        return out, buf.getvalue(), res
    return out, buf.getvalue()


def args_snap(A):
    return {k: snap(v) for k, v in A.items()}


def scribble(x, depth=0):
    """What a caller may legitimately do with a result it owns: overwrite it."""
    if depth > 4:
        return
    if isinstance(x, np.ndarray):
        try:
            if x.flags.writeable and x.size:
                x[...] = (x.dtype.type(-7) if x.dtype.kind in 'iuf' else not x.flat[0]) if x.dtype.kind in 'iufb' else x
        except Exception:
            pass
    elif isinstance(x, dict):
        for v in list(x.values()):
            scribble(v, depth + 1)
        x.clear()
    elif isinstance(x, list):
        for v in x:
            scribble(v, depth + 1)
        del x[:]
    elif isinstance(x, tuple):
        for v in x:
            scribble(v, depth + 1)


def fresh_reference(setname, opnames):
    """Each operation executed alone in a fresh interpreter on equal arguments.  Returns
    {op: result snapshot} plus '@args' -> argument snapshot of the set."""
    env = dict(os.environ)
    out = {}
    names = list(opnames) + ['@args']
    for i in range(0, len(names), core.NPROC):
        batch = names[i:i + core.NPROC]
        ps = [(n, subprocess.Popen([sys.executable, '-m', 'mc.props.C20', '--fresh', setname, n], cwd=core.VERIF, env=env,
                                   stdout=subprocess.PIPE, stderr=subprocess.PIPE)) for n in batch]
        for n, p in ps:
            o, e = p.communicate(timeout=900)
            if p.returncode != 0:
                raise RuntimeError('fresh reference failed for %s/%s: %s' % (setname, n, e.decode()[-500:]))
            out[n] = pickle.loads(base64.b64decode(o.strip().splitlines()[-1]))
    return out


def _fresh_task(args):
    setname, opname = args
    A = build_args(setname)
    if opname == '@args':
        return setname, opname, args_snap(A)
    got, out = run_op(opname, A)
    return setname, opname, got


def fresh_reference_fork(setnames, opnames):
    """Fresh-process references, one forked child per (set, operation).  The children are forked
    from this interpreter BEFORE it has executed a single dsw call (only imports), each child serves
    exactly one task (maxtasksperchild=1), so every reference is 'the operation executed alone in a
    fresh process on equal arguments'."""
    import multiprocessing as mp
    tasks = [(s_, n) for s_ in setnames for n in list(opnames) + ['@args']]
    refs = {s_: {} for s_ in setnames}
    with mp.get_context('fork').Pool(core.NPROC, maxtasksperchild=1) as pool:
        for s_, n, got in pool.imap_unordered(_fresh_task, tasks, 1):
            refs[s_][n] = got
    return refs


def mods():
    import dsw
    return [dsw.spiderweb, dsw.graphized, dsw.operation, dsw.biofilter]


def run_steps(r, steps, refs):
    """One history.  steps: ('op', set, name) | ('scribble',) | ('inplace', set).  Arguments of a set
    are shared by all steps that name it.  After every call: result == fresh-process reference for
    the set's current variant, arguments unchanged, nothing printed."""
    live, variant, snap0 = {}, {}, {}
    last_raw = None
    h0 = module_state(mods())
    label = ['%s:%s' % (x[1], x[2]) if x[0] == 'op' else x[0] + (':' + x[1] if len(x) > 1 else '') for x in steps]
    for i, stp in enumerate(steps):
        case = {'steps': [list(x) for x in steps], 'at': i}
        if stp[0] == 'scribble':
            scribble(last_raw)
            for sname in list(live):          # results may alias arguments (the caller's own objects): rebuild them
                if args_snap(live[sname]) != snap0[sname]:
                    r.ctr['result_aliases_argument'] += 1
                    live[sname] = build_args(variant[sname])
            continue
        sname = stp[1]
        if stp[0] == 'restore':
            # the caller undoes the removal by writing the arcs back into its own objects
            fresh = build_args(sname.split('@')[0])
            A = live[sname]
            A['acc'][...] = fresh['acc']
            A['lm'].clear()
            A['lm'].update(fresh['lm'])
            variant[sname] = sname.split('@')[0]
            snap0[sname] = refs[variant[sname]]['@args']
            continue
        if sname not in live:
            live[sname] = build_args(sname)
            variant[sname] = sname
            snap0[sname] = refs[sname]['@args']
            if args_snap(live[sname]) != snap0[sname]:
                r.ctr['HARNESS_ERROR'] += 1
                r.samples.append('argument construction is not reproducible for ' + sname)
        A = live[sname]
        opname = stp[2] if stp[0] == 'op' else 'remove_arc_inplace'
        got, out, last_raw = run_op(opname, A, raw=True)
        r.trans += 1
        r.evals += 1
        exp = refs[variant[sname]][opname]
        ctx_ = '+'.join(label[:i]) or 'nothing'
        if got != exp:
            r.v('C20|result-differs-from-fresh-process|op=%s|history=%s' % (opname, _kind(steps)), 'hist', case, _short(exp), _short(got), 'after ' + ctx_)
        if stp[0] == 'inplace':
            variant[sname] = sname.split('@')[0] + '@removed'
            snap0[sname] = refs[variant[sname]]['@args']
            if args_snap(A) != snap0[sname]:
                r.v('C20|in-place-removal-leaves-different-arguments-than-in-a-fresh-process', 'hist', case, None, None, 'after ' + ctx_)
                live[sname] = build_args(variant[sname])
        else:
            a1 = args_snap(A)
            if a1 != snap0[sname]:
                changed = [k for k in a1 if a1[k] != snap0[sname][k]]
                r.v('C20|argument-modified|op=%s|arg=%s' % (opname, '+'.join(changed)), 'hist', case, None, changed)
                live[sname] = build_args(variant[sname])
        if out != '':
            r.v('C20|prints-without-verbose|op=%s' % opname, 'hist', case, '', out[:100])
    r.states += 1
    if len(steps) > 1:
        r.nontriv += 1
    r.ctr['history_kind_' + _kind(steps)] += 1
    if module_state(mods()) != h0:
        r.ctr['histories_that_changed_module_state'] += 1     # informational: a correct memo is not a violation


def _kind(steps):
    kinds = {x[0] for x in steps}
    sets = {x[1] for x in steps if len(x) > 1}
    if 'scribble' in kinds:
        return 'scribble-result'
    if 'restore' in kinds:
        return 'in-place-removal-and-restore'
    if 'inplace' in kinds:
        return 'in-place-removal'
    if len(sets) > 1:
        return 'cross-content'
    return 'depth-%d' % len(steps)


def verbose_case(r, setname, name, refs):
    A = build_args(setname)
    a0 = args_snap(A)
    got, out = run_op(name, A, verbose=True)
    r.trans += 1
    r.evals += 1
    case = {'steps': [['op', setname, name]], 'verbose': True, 'at': 0}
    if got != refs[setname][name]:
        r.v('C20|verbose-changes-result-or-raises|op=%s' % name, 'verbose', case, _short(refs[setname][name]), _short(got))
    if args_snap(A) != a0 and name != 'remove_arc_inplace':     # documented to work in place
        r.v('C20|argument-modified|op=%s|verbose' % name, 'verbose', case)
    r.ctr['verbose_ops'] += 1
    if out:
        r.ctr['verbose_ops_that_print'] += 1


def _short(x):
    s = repr(x)
    return s if len(s) < 400 else s[:200] + ' ... ' + s[-150:]


def check_case(r, kind, case):
    steps = [tuple(x) for x in case['steps']]
    sets = set()
    for x in steps:
        if len(x) > 1:
            sets.add(x[1])
            if x[0] == 'inplace':
                sets.add(x[1].split('@')[0] + '@removed')
    names = [n for n, f, v in ops()]
    refs = {sname: fresh_reference(sname, names) for sname in sets}
    if kind == 'verbose':
        verbose_case(r, steps[0][1], steps[0][2], refs)
    else:
        run_steps(r, steps, refs)


def _w(chunk):
    r = core.Res()
    refs, hists = chunk
    for steps in hists:
        run_steps(r, steps, refs)
    r.sample({'history': [list(x) for x in hists[-1]]}, 1)
    return r


def _w_verbose(chunk):
    r = core.Res()
    setname, refs, names = chunk
    for n in names:
        verbose_case(r, setname, n, refs)
    return r


PAIRS = [('literal2', 'other2'), ('generated3', 'other3'), ('mixed1', 'other1'), ('homo4', 'other4')]


def run(ctx):
    from ..observe import install
    import dsw
    install(mods())
    names = [n for n, f, v in ops()]
    vnames = [n for n, f, v in ops() if v]
    pure = [n for n in names if n != 'remove_arc_inplace']
    core_ops = ['encode_long', 'decode_all_short', 'repair_all_short', 'capacity_1', 'scores', 'coding_graph_t1', 'encode_table', 'capacity_3_seeded',
                'shuffles', 'remove_arc_on_copies', 'find_vertices', 'lm_to_acc_t2']
    nh = 0
    allsets = [x for a, b in PAIRS for x in (a, b, a + '@removed')]
    allrefs = fresh_reference_fork(allsets, names)          # must stay the first thing that touches dsw
    # spot-check the forked references against literally fresh interpreters
    spot = fresh_reference('literal2', ['encode', 'capacity_3_seeded', 'shuffles', 'repair'])
    for n_, v_ in spot.items():
        if allrefs['literal2'][n_] != v_:
            ctx.res.ctr['HARNESS_ERROR'] += 1
            ctx.res.samples.append('forked reference differs from a fresh interpreter for ' + n_)
    ctx.log('fresh-process references', len(allsets), 'sets x', len(names), 'operations')
    for a, b in PAIRS:
        refs = {sname: allrefs[sname] for sname in (a, b, a + '@removed')}
        H = []
        H += [[('op', a, x)] for x in pure]                                                   # depth 1
        if a == 'homo4':     # order 4: depth 2 over core operations x all operations (both orders)
            H += [[('op', a, x), ('op', a, y)] for x in core_ops for y in pure] + [[('op', a, y), ('op', a, x)] for x in core_ops for y in pure if y not in core_ops]
        else:
            H += [[('op', a, x), ('op', a, y)] for x in pure for y in pure]                   # depth 2, exhaustive
        co = core_ops[:6] if ctx.quick else core_ops
        H += [[('op', a, x), ('op', a, y), ('op', a, z)] for x in co for y in co for z in co]  # depth 3, core ops
        H += [[('op', a, x), ('scribble',), ('op', a, x)] for x in pure]                      # caller overwrites its result
        H += [[('op', a, x), ('inplace', a), ('op', a, x)] for x in pure]                     # documented in-place call in between
        H += [[('op', a, x), ('inplace', a), ('op', a, y)] for x in co for y in co if x != y]
        H += [[('op', a, x), ('inplace', a), ('op', a, x), ('restore', a), ('op', a, x)] for x in pure]   # ... and the caller undoes it
        H += [[('op', a, x), ('op', b, x), ('op', a, x)] for x in pure]                       # same order, other content
        H += [[('op', b, x), ('op', a, y)] for x in co for y in pure]
        nh += len(H)
        ctx.pmap(_w, [(refs, c) for c in core.chunks_of(H, 40)])
        ctx.pmap(_w_verbose, [(a, refs, c) for c in core.chunks_of(vnames, 4)])
    ctx.bounds = {'operations': len(names), 'verbose_operations': len(vnames), 'argument_sets': [x for p in PAIRS for x in p],
                  'histories': nh, 'history_kinds': 'depth 1; depth 2 exhaustive (order 4: core operations x all operations); depth 3 over %d core operations; X, caller overwrites result, X; '
                  'X, in-place remove_nasty_arc on the shared graph, X (reference: fresh process on the modified arguments); X on set a, X on '
                  'set b of the same order, X on set a' % (6 if ctx.quick else len(core_ops))}
    ctx.rule = ('explicit-state search over call histories on shared argument sets: after every call the result must equal the result of the '
                'same operation executed alone in a fresh interpreter on equal arguments (equal seed for the two randomised calls), every '
                'argument must be bit-for-bit unchanged (the documented in-place arc removal excepted: there the arguments must equal those '
                'of a fresh process after the same call) and nothing may be printed; verbose=True must give the quiet result; states = '
                'histories; non-trivial = histories of length >= 2')
    ctx.assumptions = ['a change of dsw module state is recorded but is not by itself a violation (a correct memo keeps the statement true); stale '
                       'state is looked for through the history kinds above', 'results that alias an argument (connect_coding_graph returns the '
                       'caller\'s own mask when nothing is trimmed) are the caller\'s objects: arguments are rebuilt after the scribble step']
    ctx.guard('verbose ops print', ctx.res.ctr['verbose_ops_that_print'] > 10)
    ctx.guard('all history kinds ran', all(ctx.res.ctr['history_kind_' + k] > 0 for k in ('depth-1', 'depth-2', 'depth-3', 'scribble-result', 'in-place-removal', 'in-place-removal-and-restore', 'cross-content')))
    ctx.cov['histories_that_changed_module_state'] = int(ctx.res.ctr['histories_that_changed_module_state'])


if __name__ == '__main__':
    if len(sys.argv) >= 4 and sys.argv[1] == '--fresh':
        core.import_dsw()
        A = build_args(sys.argv[2])
        if sys.argv[3] == '@args':
            got = args_snap(A)
        else:
            got, out = run_op(sys.argv[3], A)
        sys.stdout.write(base64.b64encode(pickle.dumps(got)).decode() + '\n')
