"""C20 - library calls are stateless and never modify their arguments."""
import sys, os, copy, pickle, subprocess, itertools, base64
import numpy as np
from .. import core, coder, oracle as O, util as U
from ..observe import run as brun, snap, capture, module_state

PID = 'C20'


# ------------------------------------------------------------------------------------ argument sets
def build_args(name):
    import dsw
    if name == 'literal2':
        k = 2
        G = [list(x) for x in coder.LITERAL]
        bits = [0, 1, 0, 1, 0, 1, 0, 1]
        strand, corrupted, start = 'TCTCTCT', 'TCTCTATCTCTC', 1
        filt = dsw.LocalBioFilter(observed_length=2, max_homopolymer_runs=1, gc_range=[0.5, 0.5])
    elif name == 'generated3':
        k = 3
        c = O.compile_cfg((3, 2, None, ['GC']))
        mask = {v for v in range(64) if O.seq_ok_c(c, O.kmer(v, 3))}
        G = O.from_mask(O.gfp(mask, 3, 2), 3)
        start = sorted(O.has_arcs(G))[0]
        bits = [1, 0, 1, 1, 0, 0, 1, 0, 1, 1]
        strand = O.ref_encode(bits, G, start)
        w = U.walks_dev(G, start, 14, 0)[0]
        corrupted, strand = w[:6] + ('A' if w[6] != 'A' else 'C') + w[7:], strand
        filt = dsw.LocalBioFilter(observed_length=3, max_homopolymer_runs=2, undesired_motifs=['GC'])
    else:
        k = 1
        G = [[0, 1, 2, 3], [0, -1, 2, -1], [-1, 1, -1, -1], [0, 1, 2, -1]]
        start = 0
        bits = [1, 1, 0, 1, 0, 0, 1]
        strand = O.ref_encode(bits, G, start)
        corrupted = 'ACGG' + 'ACAC'
        filt = dsw.LocalBioFilter(observed_length=1, gc_range=[0.0, 1.0])
    n = 4 ** k
    acc = U.A(G)
    live = sorted(O.has_arcs(G))
    A = {
        'k': k, 'acc': acc, 'lm': {int(v): [w for w in G[v] if w >= 0] for v in live},
        'mask': np.array([1 if v in live else 0 for v in range(n)], dtype=int),
        'bits': np.array(bits, dtype=int), 'table': np.array(U.table_latin(n, 1), dtype=int),
        'strand': strand, 'corrupted': corrupted, 'start': start, 'filter': filt,
        'matrix': np.array([[1 if w in [x for x in G[u] if x >= 0] else 0 for w in range(n)] for u in range(n)], dtype=int),
        'check': O.vt(strand, 4), 'number': '9041999', 'dna': 'ACGTTGCA',
    }
    return A


def ops():
    """name -> (function(dsw, A, **verbose), accepts_verbose)"""
    def V(kw):
        return kw
    L = []

    def add(name, fn, verbose=False):
        L.append((name, fn, verbose))
    add('encode', lambda d, A, **v: d.encode(A['bits'], A['acc'], A['start'], **v), True)
    add('encode_fast', lambda d, A, **v: d.encode(A['bits'], A['acc'], A['start'], is_faster=True, **v), True)
    add('encode_table', lambda d, A, **v: d.encode(A['bits'], A['acc'], A['start'], shuffles=A['table'], **v), True)
    add('encode_vt', lambda d, A, **v: d.encode(A['bits'], A['acc'], A['start'], vt_length=4, **v), True)
    add('encode_path', lambda d, A, **v: d.encode(A['bits'], A['acc'], A['start'], need_path=True, vt_length=2, **v), True)
    add('decode', lambda d, A, **v: d.decode(A['strand'], len(A['bits']), A['acc'], A['start'], **v), True)
    add('decode_fast', lambda d, A, **v: d.decode(A['strand'], len(A['bits']), A['acc'], A['start'], is_faster=True, **v), True)
    add('decode_table', lambda d, A, **v: d.decode(A['strand'], len(A['bits']), A['acc'], A['start'], shuffles=A['table'], **v), True)
    add('decode_check', lambda d, A, **v: d.decode(A['strand'], len(A['bits']), A['acc'], A['start'], vt_check=A['check'], **v), True)
    add('decode_bad', lambda d, A, **v: d.decode(A['corrupted'], 30, A['acc'], A['start'], **v), True)
    add('set_vt', lambda d, A: d.set_vt(A['strand'], 4))
    add('repair', lambda d, A: d.repair_dna(A['corrupted'], A['acc'], A['start'], A['k'], has_indel=True))
    add('repair_noindel', lambda d, A: d.repair_dna(A['corrupted'], A['acc'], A['start'], A['k'], has_indel=False))
    add('repair_check', lambda d, A: d.repair_dna(A['corrupted'], A['acc'], A['start'], A['k'], vt_check=A['check'], has_indel=True, heap_size=5))
    add('acc_to_lm', lambda d, A, **v: d.accessor_to_latter_map(A['acc'], **v), True)
    add('lm_to_acc', lambda d, A, **v: d.latter_map_to_accessor(A['lm'], A['k'], **v), True)
    add('lm_to_acc_t2', lambda d, A, **v: d.latter_map_to_accessor(A['lm'], A['k'], threshold=2, **v), True)
    add('acc_to_matrix', lambda d, A, **v: d.accessor_to_adjacency_matrix(A['acc'], **v), True)
    add('matrix_to_acc', lambda d, A, **v: d.adjacency_matrix_to_accessor(A['matrix'], **v), True)
    add('obtain_vertices', lambda d, A: d.obtain_vertices(A['acc']))
    add('leaf_acc', lambda d, A: d.obtain_leaf_vertices(A['start'], 3, accessor=A['acc']))
    add('leaf_lm', lambda d, A: d.obtain_leaf_vertices(A['start'], 3, latter_map=A['lm']))
    add('formers_latters', lambda d, A: (d.obtain_formers(A['start'], A['k']), d.obtain_latters(A['start'], A['k'])))
    add('complete', lambda d, A, **v: d.get_complete_accessor(A['k'], **v), True)
    add('remove_useless', lambda d, A, **v: d.remove_useless(A['lm'], 2, **v), True)
    add('path_matching', lambda d, A: d.path_matching(A['corrupted'][:2 * A['k'] + 1], A['acc'], A['start'], A['k'] - 1, has_indel=True))
    add('find_vertices', lambda d, A, **v: d.find_vertices(A['k'], A['filter'], **v), True)
    add('valid_graph', lambda d, A, **v: d.connect_valid_graph(A['k'], A['mask'], **v), True)
    add('coding_graph_t1', lambda d, A, **v: d.connect_coding_graph(A['k'], A['mask'], 1, **v), True)
    add('coding_graph_t2', lambda d, A, **v: d.connect_coding_graph(A['k'], A['mask'], 2, **v), True)
    add('coding_graph_t3', lambda d, A, **v: d.connect_coding_graph(A['k'], A['mask'], 3, **v), True)
    add('capacity_1', lambda d, A, **v: d.approximate_capacity(A['acc'], repeats=1, **v), True)

    def cap3(d, A, **v):
        np.random.seed(20211)
        return d.approximate_capacity(A['acc'], repeats=3, process=True, **v)
    add('capacity_3_seeded', cap3, True)
    add('scores', lambda d, A, **v: d.calculate_intersection_score(A['lm'], observed_length=A['k'], **v), True)
    add('shuffles', lambda d, A, **v: d.create_random_shuffles(A['k'], random_seed=7, **v), True)
    add('remove_arc_on_copies', lambda d, A, **v: d.remove_nasty_arc(A['acc'].copy(), copy.deepcopy(A['lm']), **v), True)
    add('calc_add', lambda d, A: d.calculus_addition(A['number'], '7'))
    add('calc_sub', lambda d, A: d.calculus_subtraction(A['number'], '7'))
    add('calc_mul', lambda d, A: d.calculus_multiplication(A['number'], '7'))
    add('calc_div', lambda d, A: d.calculus_division(A['number'], '7'))
    add('bit_to_number', lambda d, A, **v: (d.bit_to_number(A['bits'], **v), d.bit_to_number(list(A['bits'].tolist()), is_string=False, **v)), True)
    add('number_to_bit', lambda d, A: (d.number_to_bit(A['number'], 30), d.number_to_bit(9041999, 30)))
    add('dna_number', lambda d, A: (d.dna_to_number(A['dna']), d.dna_to_number(A['dna'], is_string=False), d.number_to_dna('27000', 9), d.number_to_dna(27000, 9)))
    add('filter_valid', lambda d, A: (A['filter'].valid(A['strand'], only_last=False), A['filter'].valid(A['strand']), A['filter'].valid(A['corrupted'] + 'N')))
    return L


OPS = None


def get_ops():
    global OPS
    if OPS is None:
        OPS = {n: (f, v) for n, f, v in ops()}
    return OPS


def run_op(name, A, verbose=False):
    import dsw
    f, acc_v = get_ops()[name]
    kw = {'verbose': True} if (verbose and acc_v) else {}
    with capture() as buf:
        st, res, _ = brun(f, dsw, A, lim=50000000, **kw)
    if st == 'ok':
        return ('ok', snap(res)), buf.getvalue()
    if st == 'exc':
        return ('exc', type(res).__name__, str(res)[:200]), buf.getvalue()
    return ('budget',), buf.getvalue()


def args_snap(A):
    return {k: snap(v) for k, v in A.items()}


def fresh_reference(setname, opnames):
    """Each operation executed alone in a fresh interpreter on equal arguments."""
    env = dict(os.environ)
    procs = []
    out = {}
    names = list(opnames)
    for i in range(0, len(names), core.NPROC):
        batch = names[i:i + core.NPROC]
        ps = [(n, subprocess.Popen([sys.executable, '-m', 'mc.props.C20', '--fresh', setname, n], cwd=core.VERIF, env=env,
                                   stdout=subprocess.PIPE, stderr=subprocess.PIPE)) for n in batch]
        for n, p in ps:
            o, e = p.communicate(timeout=600)
            if p.returncode != 0:
                raise RuntimeError('fresh reference failed for %s/%s: %s' % (setname, n, e.decode()[-500:]))
            out[n] = pickle.loads(base64.b64decode(o.strip().splitlines()[-1]))
    return out


def mods():
    import dsw
    return [dsw.spiderweb, dsw.graphized, dsw.operation, dsw.biofilter]


def run_history(r, setname, seq, ref, verbose_each=False):
    """Execute the call sequence on one shared argument set; after every call compare with the
    fresh-process reference, the argument snapshots and the state hash."""
    A = build_args(setname)
    a0 = args_snap(A)
    h0 = module_state(mods())
    pre = 'C20|'
    for i, name in enumerate(seq):
        got, out = run_op(name, A)
        r.trans += 1
        r.evals += 1
        case = {'set': setname, 'seq': list(seq), 'at': i}
        if got != ref[name]:
            r.v(pre + 'result-differs-from-fresh-process|op=%s|after=%s' % (name, '+'.join(seq[:i]) or 'nothing'), 'hist', case,
                _short(ref[name]), _short(got))
        a1 = args_snap(A)
        if a1 != a0:
            changed = [k for k in a0 if a0[k] != a1[k]]
            r.v(pre + 'argument-modified|op=%s|arg=%s' % (name, '+'.join(changed)), 'hist', case, None, changed)
            A = build_args(setname)
        if out != '':
            r.v(pre + 'prints-without-verbose|op=%s' % name, 'hist', case, '', out[:100])
        h1 = module_state(mods())
        if h1 != h0:
            r.v(pre + 'module-state-changed|op=%s' % name, 'hist', case)
            h0 = h1
    r.states += 1
    if len(seq) > 1:
        r.nontriv += 1
    r.out.add(h0)


def verbose_case(r, setname, name, ref):
    A = build_args(setname)
    a0 = args_snap(A)
    got, out = run_op(name, A, verbose=True)
    r.trans += 1
    r.evals += 1
    case = {'set': setname, 'seq': [name], 'verbose': True, 'at': 0}
    if got != ref[name]:
        r.v('C20|verbose-changes-result-or-raises|op=%s' % name, 'verbose', case, _short(ref[name]), _short(got))
    if args_snap(A) != a0:
        r.v('C20|argument-modified|op=%s|verbose' % name, 'verbose', case)
    r.ctr['verbose_ops'] += 1
    if out:
        r.ctr['verbose_ops_that_print'] += 1


def _short(x):
    s = repr(x)
    return s if len(s) < 400 else s[:200] + ' ... ' + s[-150:]


_REF = {}


def check_case(r, kind, case):
    ref = fresh_reference(case['set'], set(case['seq']))
    if kind == 'verbose':
        verbose_case(r, case['set'], case['seq'][0], ref)
    else:
        run_history(r, case['set'], case['seq'], ref)


def _w(chunk):
    r = core.Res()
    setname, ref, seqs = chunk
    for seq in seqs:
        run_history(r, setname, seq, ref)
    r.sample({'set': setname, 'history': list(seqs[-1])}, 1)
    return r


def _w_verbose(chunk):
    r = core.Res()
    setname, ref, names = chunk
    for n in names:
        verbose_case(r, setname, n, ref)
    return r


def run(ctx):
    from ..observe import install
    import dsw
    install(mods())
    names = [n for n, f, v in ops()]
    vnames = [n for n, f, v in ops() if v]
    sets = ['literal2', 'generated3', 'mixed1']
    core_ops = ['encode', 'decode', 'encode_table', 'repair', 'coding_graph_t1', 'capacity_3_seeded', 'shuffles', 'scores',
                'remove_arc_on_copies', 'find_vertices', 'lm_to_acc_t2', 'bit_to_number']
    for s in sets:
        ref = fresh_reference(s, names)
        ctx.log('fresh-process references for', s, len(ref))
        seqs = [(a,) for a in names] + [(a, b) for a in names for b in names]
        if not ctx.quick:
            seqs += [(a, b, c) for a in core_ops for b in core_ops for c in core_ops]
        else:
            seqs += [(a, b, c) for a in core_ops[:6] for b in core_ops[:6] for c in core_ops[:6]]
        ctx.pmap(_w, [(s, ref, c) for c in core.chunks_of(seqs, 40)])
        ctx.pmap(_w_verbose, [(s, ref, c) for c in core.chunks_of(vnames, 4)])
    ctx.bounds = {'operations': len(names), 'verbose_operations': len(vnames), 'argument_sets': sets,
                  'histories': 'depth 1 and 2 exhaustive (%d + %d per set); depth 3 over %d core operations' % (len(names), len(names) ** 2, 6 if ctx.quick else len(core_ops))}
    ctx.rule = ('explicit-state search over call histories on one shared argument set: after every call the result must equal the '
                'result of the same operation executed alone in a fresh interpreter on equal arguments (equal seed for the two '
                'randomised calls), every argument must be bit-for-bit unchanged, nothing printed, and the state hash (arguments + '
                'dsw module globals, function defaults, class dicts) must be the initial one; verbose=True must give the quiet '
                'result; states = histories; non-trivial = histories of length >= 2')
    ctx.assumptions = ['closure: every operation maps the initial state hash to itself, so histories of any length behave as fresh calls; '
                       'depth 2-3 validates that the hash is not blind', 'remove_nasty_arc runs on private copies (documented to work in place)']
    ctx.guard('single reachable state hash', len(ctx.res.out) == 1)
    ctx.guard('verbose ops print', ctx.res.ctr['verbose_ops_that_print'] > 10)


if __name__ == '__main__':
    if len(sys.argv) >= 4 and sys.argv[1] == '--fresh':
        core.import_dsw()
        A = build_args(sys.argv[2])
        got, out = run_op(sys.argv[3], A)
        sys.stdout.write(base64.b64encode(pickle.dumps(got)).decode() + '\n')
