"""C07 - the path check is the documented VT function and sees every substitution."""
import itertools
import numpy as np
from .. import core, coder, oracle as O, util as U
from ..observe import run as brun

PID = 'C07'


def real_vt(r, s, n):
    import dsw
    st, got, _ = brun(dsw.set_vt, dna_sequence=s, vt_length=n, lim=1000000)
    r.trans += 1
    return got if st == 'ok' else ('!' + type(got).__name__ if st == 'exc' else '!budget')


def check_value(r, s, n):
    got = real_vt(r, s, n)
    exp = O.vt(s, n)
    r.evals += 1
    if got != exp:
        what = 'raised-' + got[1:] if isinstance(got, str) and got.startswith('!') else \
            'wrong-length' if not isinstance(got, str) or len(got) != n else \
            'flag-symbol-differs' if got[0] != exp[0] else 'ascent-digits-differ'
        r.v('C07|set_vt|%s%s' % (what, '|empty-strand' if s == '' else ''), 'value',
            {'s': s if len(s) <= 100 else None, 'shape': None if len(s) <= 100 else [s[:4], len(s)], 'n': n}, exp, got)
    return got


def check_edits(r, s, ns, table=None):
    """Every single substitution and every single C/G/T insertion / deletion changes the check."""
    for n in ns:
        base = table[n][s] if table else real_vt(r, s, n)
        for e in U.single_edits(s):
            kind, p, c, t = e
            if kind in ('I', 'D') and c == 'A':
                continue
            other = table[n][t] if table else real_vt(r, t, n)
            r.evals += 1
            if other == base or (isinstance(other, str) and other.startswith('!')):
                r.v('C07|edit-not-seen|%s' % {'S': 'substitution', 'I': 'insertion', 'D': 'deletion'}[kind], 'edit',
                    {'s': s, 'n': n, 'edit': [kind, p, c]}, 'check differs from ' + str(base), other)


def check_decode_rejects(r, s, n=3):
    """decode(neighbour, vt_check=check(original)) raises ValueError (complete order-2 graph: every string is a walk)."""
    import dsw
    acc = U.A(O.complete(2))
    chk = O.vt(s, n)
    for e in U.single_edits(s):
        kind, p, c, t = e
        if kind in ('I', 'D') and c == 'A':
            continue
        for fast in (False, True):
            st, got, _ = brun(dsw.decode, t, 2 * len(t) + 2, acc, 0, is_faster=fast, vt_check=chk, lim=100000)
            r.trans += 1
            r.evals += 1
            if not (st == 'exc' and type(got) is ValueError):
                r.v('C07|decode-accepts-edited-strand-with-original-check|%s|%s' % (kind, 'fast' if fast else 'normal'), 'decode',
                    {'s': s, 'n': n, 'edit': [kind, p, c]}, 'ValueError', repr(got)[:100])
    for fast in (False, True):
        st, got, _ = brun(dsw.decode, s, 2 * len(s) + 2, acc, 0, is_faster=fast, vt_check=chk, lim=100000)
        r.trans += 1
        if st != 'ok':
            r.v('C07|decode-rejects-clean-strand-with-own-check|%s' % ('fast' if fast else 'normal'), 'decode', {'s': s, 'n': n, 'edit': None},
                'accepted', repr(got)[:100])


def automaton(n):
    """Explore the VT automaton for check length n.  Returns [(witness, state)] for every reachable
    state; state = (prev, sum mod 4, ascent sum mod 4^(n-1), position mod 4^(n-1))."""
    M = 4 ** (n - 1)
    init = (-1, 0, 0, 0)
    seen = {init: ''}
    q = [init]
    while q:
        nq = []
        for stt in q:
            w = seen[stt]
            prev, sm, asc, pos = stt
            for c in range(4):
                na = (asc + (pos - 1)) % M if (prev >= 0 and prev < c) else asc
                ns = (c, (sm + c) % 4, na, (pos + 1) % M)
                if ns not in seen:
                    seen[ns] = w + O.NUC[c]
                    nq.append(ns)
        q = nq
    return seen, M


def model_out(stt, n):
    prev, sm, asc, pos = stt
    return O.NUC[sm] + O.kmer(asc, n - 1)


def check_case(r, kind, case):
    if kind == 'value':
        s = case['s'] if case.get('s') is not None else long_shape(case['shape'][0], case['shape'][1])
        check_value(r, s, case['n'])
    elif kind == 'edit':
        check_edits(r, case['s'], [case['n']])
    elif kind == 'decode':
        check_decode_rejects(r, case['s'], case['n'])
    elif kind == 'auto':
        got = real_vt(r, case['w'], case['n'])
        if got != case['exp']:
            r.v('C07|automaton-transition-differs', 'auto', case, case['exp'], got)


def long_shape(head, L):
    return (head * (L // len(head) + 1))[:L]


def _w_values(chunk):
    r = core.Res()
    L, lo, hi, ns, do_edits = chunk
    for v in range(lo, hi):
        s = O.kmer(v, L)
        for n in ns:
            check_value(r, s, n)
        r.states += 1
        if len(set(s)) > 1:
            r.nontriv += 1
    r.sample({'strand': O.kmer(hi - 1, L), 'check_lengths': list(ns)}, 1)
    return r


def _w_edits(chunk):
    """Edits through a table of real set_vt values of all strings up to length Lmax+1."""
    r = core.Res()
    Lmax, ns, part, parts = chunk
    table = {n: {} for n in ns}
    for s in U.all_strings(Lmax + 1):
        for n in ns:
            table[n][s] = real_vt(r, s, n)
    strands = [s for s in U.all_strings(Lmax)]
    for i, s in enumerate(strands):
        if i % parts == part:
            check_edits(r, s, ns, table)
            r.states += 1
            r.nontriv += 1
    r.ctr['edit_comparisons'] = r.evals
    return r


def _w_decode(chunk):
    r = core.Res()
    for s in chunk:
        check_decode_rejects(r, s)
        r.states += 1
    return r


def _w_auto(chunk):
    r = core.Res()
    n, items = chunk
    for w, stt in items:
        prev, sm, asc, pos = stt
        M = 4 ** (n - 1)
        for c in range(4):
            na = (asc + (pos - 1)) % M if (prev >= 0 and prev < c) else asc
            ns = (c, (sm + c) % 4, na, (pos + 1) % M)
            exp = model_out(ns, n)
            # model validated against the definition, then replayed on the implementation
            if exp != O.vt(w + O.NUC[c], n):
                r.ctr['MODEL_MISMATCH'] += 1
            got = real_vt(r, w + O.NUC[c], n)
            r.evals += 1
            r.ctr['automaton_transitions'] += 1
            if got != exp:
                r.v('C07|automaton-transition-differs', 'auto', {'w': w + O.NUC[c], 'n': n, 'exp': exp}, exp, got)
        r.states += 1
        r.maxi('automaton_witness_length', len(w) + 1)
    return r


def _w_long(chunk):
    r = core.Res()
    head, L = chunk
    s = long_shape(head, L)
    for n in (1, 2, 5, 9, 10, 13, 17, 20, 33, 34, 40):
        check_value(r, s, n)
    r.states += 1
    r.nontriv += 1
    r.maxi('long_strand', L)
    return r


def run(ctx):
    from ..observe import install
    import dsw
    install([dsw.spiderweb, dsw.operation])
    Lv = 8 if ctx.quick else 9
    ns = (1, 2, 3, 4, 5)
    ch = []
    for L in range(0, Lv + 1):
        ch += [(L, lo, hi, ns, False) for lo, hi in core.ranges(4 ** L, 2048)]
    ctx.pmap(_w_values, ch)
    # every check length n >= 1: also far beyond what 64-bit arithmetic holds (4^(n-1) for n >= 33)
    ch = []
    for L in range(0, 6):
        ch += [(L, lo, hi, (8, 16, 31, 32, 33, 34, 40, 64, 100), False) for lo, hi in core.ranges(4 ** L, 256)]
    ch += [(12, 4 ** 11 + i * 997, 4 ** 11 + i * 997 + 3, (33, 64), False) for i in range(40)]
    ctx.pmap(_w_values, ch)
    Le = 7 if ctx.quick else 8
    ctx.pmap(_w_edits, [(Le, (1, 2, 4), i, 16) for i in range(16)])
    strands = list(U.all_strings(5 if ctx.quick else 6))
    ctx.pmap(_w_decode, core.chunks_of(strands, 24))
    total_states = 0
    for n in (1, 2, 3):
        seen, M = automaton(n)
        items = sorted(((w, stt) for stt, w in seen.items()), key=lambda x: (len(x[0]), x[0]))
        total_states += len(items)
        ctx.pmap(_w_auto, [(n, c) for c in core.chunks_of(items, 300)])
    ctx.cov['vt_automaton_states'] = total_states
    # ascent sums grow like L^2/4: the lengths straddle sums of 2^16 (L ~ 512), 2^31 (L ~ 92,700) and 2^32 (L ~ 131,100)
    longs = [(h, L) for L in ([300, 511, 513, 520, 600, 1000, 10000, 92000, 93000, 131000, 132000] if ctx.quick else [300, 511, 513, 520, 600, 1000, 10000, 92000, 93000, 100000, 131000, 132000, 300000]) for h in ('ACGT', 'TGCA', 'AT', 'CAGT', 'AC', 'ACG')]
    ctx.pmap(_w_long, longs)
    ctx.bounds = {'all_strands_up_to': Lv, 'check_lengths': list(ns), 'long_check_lengths_on_strands_up_to_5': [8, 16, 31, 32, 33, 34, 40, 64, 100], 'edits_on_strands_up_to': Le,
                  'decode_rejection_strands_up_to': 5 if ctx.quick else 6, 'automaton_check_lengths': [1, 2, 3],
                  'long_strands': sorted({L for _, L in longs}), 'long_strand_check_lengths': [1, 2, 5, 9, 10, 13, 17, 20, 33, 34, 40]}
    ctx.rule = ('value: one case = (strand, check length) compared with the VT definition; edit: one case = (strand, single '
                'substitution or C/G/T indel, check length): the real check must change, and decode with the original check must '
                'raise ValueError; automaton: every transition of the finite VT automaton (check length <= 3) replayed on set_vt '
                'from a shortest witness strand; non-trivial = strand with two different nucleotides')
    ctx.assumptions = ['reference vt cross-checked against a cumulative formulation (oracle.vt2)',
                       'for check lengths > 3 strands longer than the bound are covered only by the long family']
    ctx.guard('automaton explored', ctx.res.ctr['automaton_transitions'] > 16000 and ctx.res.ctr['MODEL_MISMATCH'] == 0)
    bad = sum(1 for s in U.all_strings(5) for n in (1, 3) if O.vt(s, n) != O.vt2(s, n))
    ctx.guard('vt == vt2 on all strands up to length 5', bad == 0)
