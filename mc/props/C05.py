"""C05 - the strand is the documented mixed-radix walk, independent of implementation."""
import numpy as np
from .. import core, coder, oracle as O, util as U
from ..observe import run as brun

PID = 'C05'


def walk_case(r, k, G, acc, start, T, tab, w, fastok):
    """Decode an arbitrary walk: value rendered big-endian at the requested width."""
    import dsw
    val = O.ref_value(w, G, start, T)
    bl = val.bit_length()
    pre = 'C05|decode-walk|%s|table=%s|'
    for width in (bl, bl + 2):
        exp = O.value_bits(val, width)
        st, got, _ = brun(dsw.decode, w, width, acc, start, shuffles=tab, lim=coder.budget(width + len(w), len(G)))
        r.trans += 1
        r.evals += 1
        if st != 'ok' or not coder._same_bits(got, exp):
            r.v(pre % ('normal', coder.tname(T)) + ('raised-%s' % type(got).__name__ if st == 'exc' else 'value-not-big-endian-at-width' if st == 'ok' else 'budget'),
                'walk', {'k': k, 'G': G, 'start': start, 'table': T, 'walk': w, 'width': width, 'fast': False}, exp, got if st == 'ok' else repr(got))
    if fastok:
        bits, last = O.ref_fast_bits(w, G, start, T)
        st, got, _ = brun(dsw.decode, w, len(bits), acc, start, is_faster=True, shuffles=tab, lim=coder.budget(len(bits) + len(w), len(G)))
        r.trans += 1
        r.evals += 1
        if st != 'ok' or not coder._same_bits(got, bits):
            r.v(pre % ('fast', coder.tname(T)) + ('raised-%s' % type(got).__name__ if st == 'exc' else 'bits-differ' if st == 'ok' else 'budget'),
                'walk', {'k': k, 'G': G, 'start': start, 'table': T, 'walk': w, 'width': len(bits), 'fast': True}, bits, got if st == 'ok' else repr(got))
    r.states += 1
    if val > 0:
        r.nontriv += 1


def walks_for(r, k, G, start, R, n0, n1, tables1):
    acc = U.A(G)
    fastok = coder.no_deg3(G, R)
    ws = U.walks_upto(G, start, n0)
    for w in ws:
        walk_case(r, k, G, acc, start, None, None, w, fastok)
    for T in tables1:
        tab = np.array(T, dtype=int)
        for w in ws:
            if len(w) <= n1:
                walk_case(r, k, G, acc, start, T, tab, w, fastok)


def _w_walks_g1(args):
    quick, lo, hi = args
    r = core.Res()
    T1 = [U.table_latin(4, 1)] + ([] if quick else [U.table_reversal(4), U.table_latin(4, 7)])
    for code in range(lo, hi):
        if core.expired():
            r.caps.append('deadline reached inside a chunk')
            break
        G, classes = U.k1_classes(code)
        for start, wf, nr in classes:
            R = O.reach(G, start)
            walks_for(r, 1, G, start, R, 3 if quick else 5, 2 if quick else 3, T1)
            r.ctr['walk_classes'] += 1
    r.sample({'k': 1, 'arc_code': '0x%04x' % (hi - 1), 'what': 'every walk up to the bound from every start, decoded at minimal width and +2'}, 1)
    return r


def _w_walks_other(args):
    quick, items = args
    r = core.Res()
    for k, G, starts, Ls in items:
        nv = len(G)
        for start in starts:
            R = O.reach(G, start)
            walks_for(r, k, G, start, R, 3 if quick else 4, 3, [U.table_latin(nv, 1)])
            r.ctr['walk_classes'] += 1
    return r


def check_case(r, kind, case):
    if kind == 'long':
        T = case['table']
        r.merge(coder.w_long(('C05', case.get('name', '?'), case['k'], case['G'], case['start'], case['fast'], T, [int(c) for c in case['bits']])))
    elif kind == 'rt':
        coder.replay_rt(r, 'C05', case)
    elif kind == 'tabmod':
        G = case['G']
        coder.explore_class(r, 'C05', case['k'], G, case['start'], O.reach(G, case['start']), [([case['table']], case['Lmax'], True)])
    elif kind == 'diff':
        coder.diff_case(r, 'C05', case['k'], case['G'], case['G2'], case['start'], [int(c) for c in case['bits']])
    elif kind == 'walk':
        G, T = case['G'], case['table']
        R = O.reach(G, case['start'])
        walk_case(r, case['k'], G, U.A(G), case['start'], T, None if T is None else np.array(T, dtype=int), case['walk'],
                  coder.no_deg3(G, R))


def run(ctx):
    from ..observe import install
    import dsw
    install([dsw.spiderweb, dsw.operation])
    coder.run_universes(ctx, 'C05')
    ctx.pmap(_w_walks_g1, [(ctx.quick, lo, hi) for lo, hi in core.ranges(1 << 16, 256)])
    ctx.log('walk decoding G1 done', ctx.res.evals)
    ctx.pmap(_w_walks_other, [(ctx.quick, c) for c in core.chunks_of(coder.other_graphs(ctx.quick), 12)])
    ctx.bounds['decode_walks'] = 'all walks of length <= %d (no table) / <= %d (tables) from every start of every G1 class; <= %d / %d on G3/G4' % (
        (3, 2, 3, 3) if ctx.quick else (5, 3, 4, 3))
    ctx.rule = ('one case = (graph class, start, table, mode, message): the real strand must equal the strand of an independent '
                'integer-arithmetic reference coder character for character; or one (class, start, table, walk): decode at the '
                'minimal fitting width and +2 must render the Horner value big-endian (fast mode: the carried bits); states = cases; non-trivial = message with a 1 bit / walk of non-zero value')
    ctx.assumptions = ['reference coder mc/oracle.py:ref_encode/ref_value implements the published scheme as the statement words it',
                       'same table layers as C01']
    ctx.guard('well-formed classes explored', ctx.res.ctr['g1_wellformed'] > 100000)
    ctx.guard('walk classes explored', ctx.res.ctr['walk_classes'] > 150000)
