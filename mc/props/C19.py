"""C19 - arc removal keeps both graph views in step over any call sequence."""
import copy
import numpy as np
from .. import core, gen, repair as RP, oracle as O, util as U
from ..observe import run as brun

PID = 'C19'
FLAGS = [(True, True), (True, False), (False, True), (False, False)]
NF = 8      # flag combination x successor-list order (as produced / reversed)


def lm_plain(lm):
    return {int(a): [int(x) for x in b] for a, b in lm.items()}


_FRESH = {'n': 0}
_LAST = {}


def fresh_scores(k, G, flag):
    """calculate_intersection_score on this graph in a fresh interpreter (at most 40 times per worker)."""
    import subprocess, sys, json, os
    if _FRESH['n'] >= 40:
        return None
    _FRESH['n'] += 1
    code = ("import sys,json;sys.path.insert(0,%r);import numpy as np,dsw;"
            "G=json.loads(sys.argv[1]);lm=dsw.accessor_to_latter_map(np.array(G));"
            "print(json.dumps(dsw.calculate_intersection_score(latter_map=lm,observed_length=%d,has_insertion=%r,has_deletion=%r).tolist()))"
            % (core.REPO, k, bool(flag[0]), bool(flag[1])))
    try:
        p = subprocess.run([sys.executable, '-c', code, json.dumps(G)], capture_output=True, text=True, timeout=300)
        return json.loads(p.stdout.strip().splitlines()[-1])
    except Exception:
        return None


def transition(r, k, acc0, flag, path, rev=False):
    """One real remove_nasty_arc call from the state acc0 (numpy, not modified).  Returns the next
    accessor (numpy) or None when the call raised."""
    import dsw
    n = 4 ** k
    acc = acc0.copy()
    st, lm, _ = brun(dsw.accessor_to_latter_map, acc)
    if st != 'ok':
        return None
    if rev:      # the order in which a latter map lists successors carries no meaning
        lm = {a: list(b)[::-1] for a, b in lm.items()}
    pre_lm = lm_plain(lm)
    case = {'k': k, 'arcs': RP.garcs(U.rows(acc0)), 'flag': list(flag), 'path': path, 'rev': rev}
    ref = O.ref_scores(U.rows(acc0), k, flag[0], flag[1])
    sig = 'C19|k=%d|' % k
    # scores of the pre-state, computed on a copy
    st, sc0, _ = brun(dsw.calculate_intersection_score, latter_map=copy.deepcopy(lm), observed_length=k,
                      has_insertion=flag[0], has_deletion=flag[1], lim=50000000)
    r.trans += 1
    if st == 'ok':
        sc = np.asarray(sc0)
        r.evals += 1
        if sc.shape != acc0.shape:
            r.v(sig + 'scores-do-not-have-accessor-shape', 'step', case, list(acc0.shape), list(sc.shape))
            sc = None
        elif np.any((sc > 0) & (acc0 < 0)):
            r.v(sig + 'positive-score-on-missing-arc', 'step', case)
        elif U.rows(sc) != ref:
            # The reference is the definition of the score (the pinned scoring, see oracle.ref_scores).  A fresh
            # interpreter only tells the two ways of deviating apart: scores that depend on earlier calls, or a
            # score computation that is different from the definition in every process.
            fresh = fresh_scores(k, U.rows(acc0), flag)
            if fresh is not None and fresh == U.rows(sc):
                r.v(sig + 'scores-differ-from-the-reference-definition', 'step', case, None, None,
                    'calculate_intersection_score (same in a fresh process) differs from the reference score of the pre-state')
            else:
                r.v(sig + 'scores-differ-from-a-fresh-computation', 'step', case, None, None,
                    'calculate_intersection_score on a copy of the pre-state differs from the same call in a fresh process')
    else:
        sc = None
    st, res, _ = brun(dsw.remove_nasty_arc, accessor=acc, latter_map=lm, has_insertion=flag[0], has_deletion=flag[1], lim=50000000)
    r.trans += 1
    r.evals += 1
    if st != 'ok':
        r.ctr['sequence_end_%s' % (type(res).__name__ if st == 'exc' else 'budget')] += 1
        if st == 'budget':
            r.v(sig + 'does-not-return', 'step', case)
        return None
    try:
        acc2, lm2, arc, scores = res
        acc2 = np.asarray(acc2)
        former, latter = int(arc[0]), int(arc[1])
    except Exception:
        r.v(sig + 'malformed-result', 'step', case, '(accessor, latter_map, (former, latter), scores)', repr(res)[:150])
        return None
    diff = np.argwhere(acc2 != acc0)
    if acc2.shape != acc0.shape or len(diff) != 1:
        r.v(sig + 'not-exactly-one-entry-changed', 'step', case, 1, len(diff) if acc2.shape == acc0.shape else 'shape')
        return None
    u, j = int(diff[0][0]), int(diff[0][1])
    if acc0[u, j] < 0 or acc2[u, j] != -1:
        r.v(sig + 'changed-entry-was-not-an-arc-or-not-cleared', 'step', case, None, [u, j, int(acc0[u, j]), int(acc2[u, j])])
    if (former, latter) != (u, int(acc0[u, j])):
        r.v(sig + 'reported-arc-is-not-the-removed-arc', 'step', case, [u, int(acc0[u, j])], [former, latter])
    mx = max(max(row) for row in ref)
    if ref[u][j] != mx:
        r.v(sig + 'removed-arc-does-not-have-maximum-score', 'step', case, mx, ref[u][j])
    r.out.add(mx)
    _LAST['case'] = {'k': k, 'arcs_before': RP.garcs(U.rows(acc0))[:40], 'flags': list(flag), 'successor_lists_reversed': rev, 'removed_arc': [former, latter], 'its_score': ref[u][j], 'maximum_score': mx}
    # both views describe the same graph
    G2 = U.rows(acc2)
    exp_lm = {v: [w for w in G2[v] if w >= 0] for v in range(n) if any(w >= 0 for w in G2[v])}
    try:
        got_lm = {a: sorted(b) for a, b in lm_plain(lm2).items()}
        exp_lm = {a: sorted(b) for a, b in exp_lm.items()}
    except Exception:
        got_lm = None
    if got_lm != exp_lm:
        r.v(sig + 'latter-map-and-accessor-disagree', 'step', case, exp_lm if n <= 16 else None, got_lm if n <= 16 else None)
    else:
        st, back, _ = brun(dsw.latter_map_to_accessor, lm2, k)
        if st != 'ok' or U.rows(back) != G2:
            r.v(sig + 'latter-map-does-not-convert-back-to-accessor', 'step', case)
    if not O.wellformed_arcs(G2, k):
        r.v(sig + 'accessor-entry-not-minus1-or-successor', 'step', case)
    if not (acc is acc2 or True):
        pass
    return acc2.copy()


def explore(r, k, G, max_changes, cap, dmax=None, first=None):
    """Search over call sequences: first the four pure flag sequences to their end (never capped),
    then all sequences with at most max_changes flag changes; transitions are cached per
    (state, flag) and every distinct transition is one real call with the invariant evaluated."""
    acc0 = U.A(G)
    cache = {}
    states = {acc0.tobytes()}
    ntrans = [0]
    capped = [False]

    def search(mc, limit):
        seen = set()
        stack = [(acc0.tobytes(), fi, 0, 0) for fi in (range(NF) if first is None else first)]
        while stack:
            sb, fi, ch, depth = stack.pop()
            if (sb, fi, ch) in seen:
                continue
            seen.add((sb, fi, ch))
            key = (sb, fi)
            if key not in cache:
                if limit is not None and ntrans[0] >= limit:
                    capped[0] = True
                    continue
                acc = np.frombuffer(sb, dtype=acc0.dtype).reshape(acc0.shape)
                nxt = transition(r, k, acc, FLAGS[fi % 4], depth, rev=fi >= 4)
                cache[key] = None if nxt is None else nxt.tobytes()
                ntrans[0] += 1
            nb = cache[key]
            if nb is None or (dmax is not None and depth + 1 >= dmax):
                r.maxi('longest_sequence', depth)
                continue
            states.add(nb)
            for f2 in range(NF):
                c2 = ch + (1 if f2 != fi else 0)
                if c2 <= mc:
                    stack.append((nb, f2, c2, depth + 1))

    search(0, None)
    r.ctr['pure_sequence_transitions'] += ntrans[0]
    if max_changes > 0:
        search(max_changes, cap)
    r.states += len(states)
    r.nontriv += len(states) - 1
    r.ctr['distinct_transitions'] += ntrans[0]
    if capped[0]:
        r.caps.append('mixed-sequence transition cap %d hit on a k=%d graph with %d arcs (pure sequences complete)' % (cap, k, len(RP.garcs(G))))
    return len(states)


def check_case(r, kind, case):
    G = RP.graph_of(case)
    transition(r, case['k'], U.A(G), tuple(case['flag']), case.get('path', 0), rev=bool(case.get('rev')))


def _w(chunk):
    r = core.Res()
    for k, G, mc, cap, *rest in chunk:
        ns = explore(r, k, G, mc, cap, *rest)
        r.ctr['initial_graphs_k%d' % k] += 1
    k, G, mc, cap = chunk[-1][:4]
    r.sample(_LAST.get('case') or {'k': k, 'initial_arcs': RP.garcs(G)[:40]}, 1)
    return r


def run(ctx):
    from ..observe import install
    import dsw
    install([dsw.spiderweb, dsw.graphized, dsw.operation, dsw.biofilter])
    q = ctx.quick
    items = []
    # distinct generated order-2 graphs with few vertices (closed masks), t in {1,2}
    cnt = {}
    for m, t in RP.k2_generated_masks((1, 2)):
        nv = bin(m).count('1')
        if nv > (8 if q else 10):
            continue
        cnt[(nv, t)] = cnt.get((nv, t), 0) + 1
        if cnt[(nv, t)] > (30 if q else 300):
            continue
        G = O.from_mask({i for i in range(16) if m >> i & 1}, 2)
        items.append((2, G, 2, 1500 if q else 10000))
    fg = RP.filter_graphs((2, 3), small=q)
    for k, G, t in fg:
        items.append((k, G, 2 if k == 2 else 0, (1500 if q else 10000) if k == 2 else 0))
    items.append((2, [list(x) for x in __import__('mc.coder', fromlist=['LITERAL']).LITERAL], 2, 400 if q else 3000))
    items.sort(key=lambda x: -len(RP.garcs(x[1])) * 4 ** x[0])
    # orders 4 (5): scores pass 255 there; pure flag sequences of bounded depth, one job per first flag
    big = [(4, O.from_mask(set(range(256)), 4))] + [(k_, G_) for k_, G_, t_ in RP.filter_graphs((4,) if q else (4, 5), ts=(2,), small=True)][:(3 if q else 8)]
    if not q:
        big.append((5, O.from_mask(set(range(1024)), 5)))
    deep = [(k_, G_, 0, 0, (5 if q else 12) if k_ == 4 else 4, [fi]) for k_, G_ in big for fi in range(NF)]
    items = deep + items
    ctx.log('initial graphs', len(items))
    ctx.pmap(_w, [[it] for it in items])
    ctx.exhaustive = not ctx.res.caps
    ctx.bounds = {'initial_graphs': len(items) - len(deep) + len(big), 'order4': '%d graphs of order 4%s (complete and filter graphs): the 8 pure flag sequences to depth %d' % (len(big), '' if q else '-5', 5 if q else 12), 'order2': 'generated graphs with <= %d vertices (first %d per (size,t) stratum), filter graphs, the GC-balanced literal' % ((8, 30) if q else (10, 300)),
                  'order3': 'filter graphs, pure flag sequences', 'flag_changes': 'order 2: <= 2; order 3: 0',
                  'sequences': 'to the first raising call'}
    ctx.rule = ('reachable-state search: state = accessor bytes (latter map is a function of it once the invariant holds), transition '
                '= one real remove_nasty_arc call under one of the 4 flag combinations; on every transition that returns: exactly one '
                'entry changed, it was an arc, its score (recomputed by calculate_intersection_score on a copy of the pre-state) is '
                'the global maximum, the reported arc is that arc, latter map == accessor_to_latter_map(accessor) and converts '
                'back, scores have the accessor shape and are positive only on arcs; non-trivial = non-initial states')
    ctx.assumptions = ['the score function itself is the library\'s (the statement does not define it); its shape/positivity are checked',
                       'states are de-duplicated on accessor bytes; sound because every visited state satisfies accessor == latter map']
    ctx.guard('transitions', ctx.res.ctr['distinct_transitions'] > 1000)
