"""C08 - repair recovers the original strand for separated interior edits."""
import itertools
import numpy as np
from .. import core, gen, repair as RP, oracle as O, util as U

PID = 'C08'
HEAP = 10 ** 9
_LAST = {}


def lim_for(n, k, d):
    return 64 * (n + 2) * (k + 1) ** 2 + 64 + 8 * (8 * k + 8) ** d * (n + 3) + 2000


def rep(r, k, G, acc, start, w, edits, s, indel, chk):
    st, res, loops = RP.call(s, acc, start, k, chk=chk, indel=indel, heap=HEAP, lim=lim_for(len(s), k, len(edits)))
    r.trans += 1
    r.evals += 1
    if st != 'ok' or not RP.wellformed_result(res):
        r.v('C08|k=%d|repair-%s' % (k, 'does-not-return' if st == 'budget' else 'raised-%s' % type(res).__name__ if st == 'exc' else 'malformed'),
            'edit', dict(RP.gcase(k, G), start=start, w=w, edits=[list(e[:3]) for e in edits], indel=indel, chk=chk), None, repr(res)[:120])
        return None
    return res


def edit_case(r, k, G, acc, start, w, edits):
    """edits: list of (kind, pos, nucleotide) in original coordinates, applied right to left."""
    s = w
    for e in sorted(edits, key=lambda e: -e[1]):
        s = U.apply_edit(s, e)
    d = len(edits)
    kinds = ''.join(sorted(e[0] for e in edits))
    walk = O.is_walk(G, start, s)
    pre = 'C08|k=%d|edits=%s|' % (k, kinds)
    case = dict(RP.gcase(k, G), start=start, w=w, edits=[list(e[:3]) for e in edits])
    subs_only = all(e[0] == 'S' for e in edits)
    variants = [(True, None), (True, O.vt(w, 4))] + ([(False, None)] if subs_only else [])
    for indel, chk in variants:
        res = rep(r, k, G, acc, start, w, edits, s, indel, chk)
        if res is None:
            continue
        cands, stats = list(res[0]), res[1]
        det = int(stats[0])
        vtag = 'indel-%s|%s' % ('on' if indel else 'off', 'check' if chk else 'nocheck')
        if det == d and w not in cands:
            r.v(pre + 'original-not-among-candidates|' + vtag, 'edit', dict(case, indel=indel, chk=chk), w, {'candidates': cands[:6], 'stats': core._j(stats), 'corrupted': s})
        if d == 1 and chk is None:
            if (det == 1) != (not walk) or det not in (0, 1):
                r.v(pre + ('edit-not-detected-although-not-a-walk' if not walk else 'detected-although-still-a-walk') + '|' + vtag, 'edit',
                    dict(case, indel=indel, chk=chk), 1 if not walk else 0, {'stats': core._j(stats), 'corrupted': s})
        if det == d:
            _LAST['case'] = dict(RP.gcase(k, G) if len(G) <= 16 else {'k': k, 'graph': 'order-%d graph with %d arcs' % (k, len(RP.garcs(G)))}, start=start, walk=w, edits=[list(e[:3]) for e in edits], corrupted=s,
                                 indel=indel, check=chk, detected=det, candidates=cands[:4], original_among_candidates=w in cands)
            r.ctr['detected_all_%d' % d] += 1
            r.out.add((k, kinds, len(cands) if len(cands) < 6 else 6))
        elif det < d:
            r.ctr['detected_fewer'] += 1
        else:
            r.ctr['detected_more'] += 1
    r.states += 1
    if not walk:
        r.nontriv += 1


def explore(r, k, G, starts, n, dev, double=False, dev2=1):
    acc = U.A_reuse(G)
    for start in starts:
        if not double:
            for w in U.walks_dev(G, start, n, dev):
                for e in U.single_edits(w, k, n - 2 * k):
                    edit_case(r, k, G, acc, start, w, [e[:3]])
        else:
            for w in U.walks_dev(G, start, n, dev2):
                lo, hi = k, n - 2 * k
                for p1 in range(lo, hi):
                    for p2 in range(p1 + 3 * k + 2, hi):
                        e1s = [e[:3] for e in U.single_edits(w, p1, p1 + 1)]
                        e2s = [e[:3] for e in U.single_edits(w, p2, p2 + 1)]
                        for e1 in e1s:
                            for e2 in e2s:
                                edit_case(r, k, G, acc, start, w, [e1, e2])


def explore_long(r, k, G, starts, n, stride):
    """Long strands: rule-generated walks of n nucleotides, every single edit at every stride-th
    interior position (all positions when stride == 1)."""
    acc = U.A(G)
    for start in starts:
        for a, b in ((7, 3), (1, 0), (5, 1)):
            w = U.rule_walk(G, start, n, a, b)
            if len(w) < n:
                continue
            for p in range(k, n - 2 * k, stride):
                for e in U.single_edits(w, p, p + 1):
                    edit_case(r, k, G, acc, start, w, [e[:3]])
            r.maxi('long_walk_nt', n)
            r.ctr['long_walks'] += 1


def explore_equal_context(r, k, G, starts, n, seeds):
    """Two spaced edits whose surroundings read the same: on non-periodic (LCG-driven) walks, every pair
    of interior positions at least 3k+2 apart whose 2k-1 nucleotides around the position are textually
    equal, every edit kind at both.  Anything remembered per local text instead of per state shows here."""
    acc = U.A(G)
    for start in starts:
        for sd in seeds:
            w = U.lcg_walk(G, start, n, sd)
            if len(w) < n:
                continue
            lo, hi = 2 * k, n - 2 * k
            ctx_ = {}
            for p in range(lo, hi):
                ctx_.setdefault(w[p - k + 1:p + k], []).append(p)
            for ps in ctx_.values():
                for p1, p2 in itertools.combinations(ps, 2):
                    if p2 - p1 < 3 * k + 2 or w[p1 - 2 * k + 1:p1 - k + 1] == w[p2 - 2 * k + 1:p2 - k + 1]:
                        continue
                    for e1 in U.single_edits(w, p1, p1 + 1):
                        for e2 in U.single_edits(w, p2, p2 + 1):
                            edit_case(r, k, G, acc, start, w, [e1[:3], e2[:3]])
                    r.ctr['equal_context_pairs'] += 1


def check_case(r, kind, case):
    G = RP.graph_of(case)
    edit_case(r, case['k'], G, U.A(G), case['start'], case['w'], [tuple(e) for e in case['edits']])


def _w(chunk):
    r = core.Res()
    quick, items = chunk
    import time as _t
    for item in items:
        _t0 = _t.time()
        what, k = item[0], item[1]
        if what == 'mask':
            _, _, m, t, nstarts, dbl = item
            tag, G, acc = gen.gen_from_mask(2, {i for i in range(16) if m >> i & 1}, t)
            if tag != 'ok':
                r.v('C08|generation-failed', 'gen', {'k': 2, 'mask': m, 't': t})
                continue
        else:
            _, _, G, t, nstarts, dbl = item
        live = sorted(O.has_arcs(G))
        starts = live if len(live) <= nstarts else live[:nstarts // 2] + live[-(nstarts - nstarts // 2):]
        if what == 'long':
            st3 = [live[0], live[len(live) // 2], live[-1]]
            for n, stride in ((40, 1), (200, 7)) if quick else ((40, 1), (160, 3), (400, 9)):
                explore_long(r, k, G, [st3[nstarts]], n, stride)
            if k in (2, 3):
                explore_equal_context(r, k, G, [st3[nstarts]], 16 * k + 12, range(4 if quick else 16))
            r.ctr['graphs_k%d' % k] += 1
            r.maxi('item_wall_s_%s_k%d' % (what, k), _t.time() - _t0)
            continue
        explore(r, k, G, starts, 3 * k + 3, 1 if quick else 2)
        explore(r, k, G, starts, 4 * k + 5, 1)
        if dbl:
            explore(r, k, G, starts[:2] if quick else starts[:3], 7 * k + 4, 0, double=True, dev2=1 if (quick or k > 1) else 2)
        r.ctr['graphs_k%d' % k] += 1
        r.maxi('item_wall_s_%s_k%d' % (what, k), _t.time() - _t0)
    r.sample(_LAST.get('case') or {'graph': core._j(item[2]) if item[0] == 'mask' else RP.gcase(item[1], item[2]), 't': item[3]}, 1)
    return r


def strata(quick):
    """Order-2 generated graphs (closed masks), the first m of every (vertex count, threshold) stratum."""
    m_per = 6 if quick else 12
    cnt, out = {}, []
    for m, t in RP.k2_generated_masks((2, 3)):
        key = (bin(m).count('1'), t)
        cnt[key] = cnt.get(key, 0) + 1
        if cnt[key] <= m_per:
            out.append((m, t, cnt[key]))
    return out


def run(ctx):
    from ..observe import install
    import dsw
    install([dsw.spiderweb, dsw.graphized, dsw.operation, dsw.biofilter])
    q = ctx.quick
    items = []
    for k, G, t in RP.k1_generated():
        items.append(('graph', 1, G, t, 4, True))
    st = strata(q)
    for m, t, i in st:
        items.append(('mask', 2, m, t, 8 if not q else 6, i <= (1 if q else 3)))
    fg = RP.filter_graphs((2, 3), small=q)
    for k, G, t in fg:
        items.append(('graph', k, G, t, 6 if q else 16, k == 2 and not q))
    # long strands at orders 2..5 (high vertex indices, long index queues)
    lg = RP.filter_graphs((4, 5), ts=(1, 2), small=True)
    l4, l5 = [x for x in lg if x[0] == 4], [x for x in lg if x[0] == 5]
    for k, G, t in fg[:2] + fg[-2:] + l4[:(2 if q else 6)] + l5[:(2 if q else 6)]:
        for si in (0, 1, 2):
            items.append(('long', k, G, t, si, False))
    ctx.log('graphs', len(items))
    ctx.pmap(_w, [(q, [it]) for it in items])
    ctx.bounds = {'order1': 'every distinct generated graph (all 15 masks x t=1..4)',
                  'order2': 'first %d generated graphs of every (vertex count, threshold in {2,3}) stratum: %d graphs' % (6 if q else 12, len(st)),
                  'filter_graphs_k2_k3': len(fg), 'walks': 'length 3k+3 and 4k+5, at most %d non-default arc choices' % (1 if q else 2),
                  'single_edits': 'every position of [k, n-2k), every substitution, insertion and deletion',
                  'equal_context_double_edits': 'LCG-driven walks of 16k+12 nt on the order-2/3 long-walk graphs: all position pairs >= 3k+2 apart with equal 2k-1-nt surroundings and different older context, every edit kind at both', 'double_edits': 'spacing >= 3k+2 on walks of length 7k+4 (subset of graphs and starts)',
                  'long_walks': 'rule-generated walks of 40 and 200 (40, 160, 400) nucleotides on filter graphs of order 2..5, every single edit at every (1st/7th; 1st/3rd/9th) interior position'}
    ctx.exhaustive = False
    ctx.rule = ('one case = (generated graph, start, walk, edit set): repair with indel handling on and heap 1e9 (also with the check of '
                'the original, and with indel handling off for substitutions): if detected == number of edits the original is among '
                'the candidates; single edit: detected == 1 iff the corrupted strand is not a walk; states = (graph,start,walk,edits); '
                'non-trivial = corrupted strand is not a walk')
    ctx.assumptions = ['the generated-graph list is cut per stratum; nothing is claimed beyond the listed graphs',
                       'walks are deviation-bounded (default = first live arc)']
    ctx.guard('detected single edits', ctx.res.ctr['detected_all_1'] > 10000)
    ctx.guard('detected double edits', ctx.res.ctr['detected_all_2'] > 100)
