"""C11 - vertex discovery and the valid graph mirror the filter exactly."""
import itertools
import numpy as np
from .. import core, oracle as O, util as U
from ..observe import run as brun
from .C12 import GC_MENU, MOTIFS, make_filter
from .C03 import binary_masks

PID = 'C11'


def user_filters():
    """Filters written against the documented interface valid(self, dna_string)."""
    import dsw

    class RegionalizedGCFilter(dsw.DefaultBioFilter):  # the documentation's own example
        def __init__(self, window_length, gc_bias):
            super().__init__(screen_name="Regionalized GC content constraint")
            self._window_length = window_length
            self._gc_bias = gc_bias

        def valid(self, dna_string):
            if len(dna_string) >= self._window_length:
                for index in range(len(dna_string) - self._window_length + 1):
                    regional_dna_string = dna_string[index: index + self._window_length]
                    gc_count = regional_dna_string.count("C") + regional_dna_string.count("G")
                    if gc_count > (0.5 + self._gc_bias) * self._window_length:
                        return False
                    if gc_count < (0.5 - self._gc_bias) * self._window_length:
                        return False
            else:
                gc_count = dna_string.count("C") + dna_string.count("G")
                if gc_count > (0.5 + self._gc_bias) * self._window_length:
                    return False
                at_count = dna_string.count("A") + dna_string.count("T")
                if at_count > (0.5 + self._gc_bias) * self._window_length:
                    return False
            return True

    class NoPalindrome(dsw.DefaultBioFilter):
        def __init__(self):
            super().__init__(screen_name="no reverse-complement palindrome")

        def valid(self, dna_string):
            return dna_string != O.revcomp(dna_string)

    class Table(dsw.DefaultBioFilter):
        def __init__(self, accepted):
            super().__init__(screen_name="table")
            self.accepted = accepted

        def valid(self, dna_string):
            return dna_string in self.accepted

    return RegionalizedGCFilter, NoPalindrome, Table


def filt_from(desc):
    R, N, T = user_filters()
    if desc[0] == 'local':
        return make_filter(tuple(desc[1]) if not isinstance(desc[1], tuple) else desc[1])
    if desc[0] == 'rgc':
        return R(desc[1], desc[2])
    if desc[0] == 'nopal':
        return N()
    if desc[0] == 'table':
        return T(set(desc[1]))


def check_find(r, k, desc):
    import dsw
    n = 4 ** k
    case = {'k': k, 'filter': core._j(desc)}
    st, f, _ = brun(filt_from, desc)
    if st != 'ok':
        return
    kind = desc[0] if desc[0] != 'local' else 'local'
    # the oracle asks the filter itself, k-mer by k-mer, through the documented positional interface
    exp = []
    for v in range(n):
        s = O.kmer(v, k)
        a = bool(f.valid(s))
        if desc[0] == 'local':
            cfg = desc[1]
            cfg = (cfg[0], cfg[1], tuple(cfg[2]) if cfg[2] else None, cfg[3])
            if a != O.seq_ok_c(O.compile_cfg(cfg), s[-cfg[0]:]):      # the filter judges its own last window
                r.ctr['local_filter_differs_from_reference(C12)'] += 1
        exp.append(a)
    st, got, _ = brun(dsw.find_vertices, observed_length=k, bio_filter=f)
    r.trans += 1
    r.evals += 1
    r.states += 1
    pre = 'C11|find_vertices|%s-filter|' % ('user-defined' if kind != 'local' else 'local')
    if not any(exp):
        if not (st == 'exc' and type(got) is ValueError):
            r.v(pre + 'no-kmer-accepted-but-' + ('returned' if st == 'ok' else type(got).__name__), 'find', case, 'ValueError',
                got if st == 'ok' else repr(got))
        r.ctr['find_empty'] += 1
        return
    r.nontriv += 1 if not all(exp) else 0
    if st != 'ok':
        r.v(pre + 'raised-' + (type(got).__name__ if st == 'exc' else 'budget'), 'find', case, 'mask', repr(got))
        return
    try:
        g = [bool(x) for x in np.asarray(got).tolist()]
    except Exception:
        g = None
    if g is None or len(g) != n or g != exp:
        r.v(pre + 'mask-differs-from-filter-verdicts', 'find', case, [i for i in range(n) if exp[i]][:50],
            [i for i in range(len(g or [])) if g[i]][:50])
    r.out.add(sum(exp))


def check_valid(r, k, mask, dtype='bool'):
    import dsw
    n = 4 ** k
    case = {'k': k, 'mask': sorted(mask), 'dtype': dtype}
    m = np.zeros(n, dtype=bool if dtype == 'bool' else int)
    if mask:
        m[sorted(mask)] = 1
    before = m.tobytes()
    st, acc, _ = brun(dsw.connect_valid_graph, observed_length=k, vertices=m)
    r.trans += 1
    r.evals += 1
    r.states += 1
    pre = 'C11|connect_valid_graph|k=%s|' % (k if k <= 2 else '>=3')
    if m.tobytes() != before:
        r.v(pre + 'input-mask-modified', 'valid', case)
    if not mask:
        if not (st == 'exc' and type(acc) is ValueError):
            r.v(pre + 'empty-mask-but-' + ('returned' if st == 'ok' else type(acc).__name__), 'valid', case, 'ValueError', repr(acc)[:100])
        return
    if st != 'ok':
        r.v(pre + 'raised', 'valid', case, 'accessor', repr(acc))
        return
    G = U.rows(acc)
    if G != O.from_mask(mask, k):
        r.v(pre + 'arcs-differ-from-induced-subgraph', 'valid', case, None, G if n <= 16 else sorted(O.has_arcs(G)))
    if len(mask) < n:
        r.nontriv += 1
    r.out.add(sum(1 for row in G for x in row if x >= 0))


def check_case(r, kind, case):
    if kind == 'find':
        d = case['filter']
        if d[0] == 'local':
            d = ['local', (d[1][0], d[1][1], tuple(d[1][2]) if d[1][2] else None, d[1][3])]
        check_find(r, case['k'], d)
    else:
        check_valid(r, case['k'], set(case['mask']), case.get('dtype', 'bool'))


def _w_find(chunk):
    r = core.Res()
    for k, desc in chunk:
        check_find(r, k, desc)
    r.sample({'k': chunk[-1][0], 'filter': core._j(chunk[-1][1])}, 1)
    return r


def _w_tables(chunk):
    r = core.Res()
    lo, hi = chunk
    kmers = [O.kmer(v, 2) for v in range(16)]
    for m in range(lo, hi):
        check_find(r, 2, ('table', [kmers[i] for i in range(16) if m >> i & 1]))
    r.sample({'k': 2, 'filter': 'table filter accepting exactly the 2-mers of mask 0x%04x' % (hi - 1)}, 1)
    return r


def _w_valid(chunk):
    r = core.Res()
    for k, mask, dts in chunk:
        for dt in dts:
            check_valid(r, k, mask, dt)
    r.sample({'k': chunk[-1][0], 'mask': sorted(chunk[-1][1])[:32]}, 1)
    return r


def _w_valid2(chunk):
    r = core.Res()
    lo, hi = chunk
    for m in range(lo, hi):
        mask = {i for i in range(16) if m >> i & 1}
        check_valid(r, 2, mask, 'bool')
        check_valid(r, 2, mask, 'int')
    r.sample({'k': 2, 'mask': '0x%04x' % (hi - 1), 'dtypes': ['bool', 'int']}, 1)
    return r


def filter_menu(kmax):
    out = []
    for k in range(1, kmax + 1):
        for run in [None] + list(range(1, min(k, 4) + 1)):
            for gc in GC_MENU:
                for mot in MOTIFS:
                    if mot is not None and any(len(x) > k for x in mot):
                        continue
                    if k >= 5 and mot not in (None, ['GC'], ['ACG', 'TT']):
                        continue
                    out.append((k, ('local', (k, run, gc, mot))))
        for w in range(1, k + 1):
            for bias in (0.0, 0.1, 0.25, 0.5):
                out.append((k, ('rgc', w, bias)))
        # a local filter whose own window differs from the order it is asked about
        for kf in (k - 1, k + 1, k - 2):
            if kf >= 1:
                for run, gc, mot in ((min(2, kf), None, None), (None, ('0.4', '0.6'), None), (1, ('0.25', '0.75'), None), (None, None, ['AC'] if kf >= 2 else None)):
                    out.append((k, ('local', (kf, run, gc, mot))))
        out.append((k, ('nopal',)))
        out.append((k, ('table', [])))
        out.append((k, ('table', [O.kmer(0, k)])))
        for tail in ([4 ** k - 1], [4 ** k - 2], [4 ** k - 4, 4 ** k - 3], [1], [4 ** k // 2]):
            out.append((k, ('table', [O.kmer(v, k) for v in tail if 0 <= v < 4 ** k])))
        out.append((k, ('table', [O.kmer(4 ** k - 1, k), O.kmer(4 ** k // 3, k)])))
        out.append((k, ('table', [O.kmer(v, k) for v in range(4 ** k) if v % 3 == 0])))
    return out


def run(ctx):
    from ..observe import install
    import dsw
    install([dsw.spiderweb, dsw.graphized, dsw.operation, dsw.biofilter])
    menu = filter_menu(5 if ctx.quick else 6)
    menu.sort(key=lambda x: -x[0])
    ctx.pmap(_w_find, core.chunks_of(menu, 6))
    ctx.pmap(_w_tables, core.ranges(1 << 16, 1024))
    ctx.pmap(_w_valid2, core.ranges(1 << 16, 1024))
    fam = [(1, {i for i in range(4) if m >> i & 1}, ('bool', 'int')) for m in range(16)]
    alph = list(itertools.combinations(range(4), 2))
    fam += [(k, m, ('bool',)) for k, m in binary_masks(3, alph)]
    fam += [(k, m, ('bool',)) for k, m in binary_masks(4, alph[:1] if ctx.quick else alph[:3])]
    for d in range(0, 3):
        for rem in itertools.combinations(range(64), d):
            fam.append((3, set(range(64)) - set(rem), ('bool', 'int')))
    # order 4 with high vertex indices (>= 128): full mask, full minus one vertex, the six binary sub-alphabets
    fam.append((4, set(range(256)), ('bool', 'int')))
    for v in range(256):
        fam.append((4, set(range(256)) - {v}, ('bool',)))
    for a, b in alph:
        fam.append((4, {O.idx(''.join(p)) for p in itertools.product(O.NUC[a] + O.NUC[b], repeat=4)}, ('bool',)))
    # very sparse masks at higher orders (a verdict must not depend on how small the accepted fraction is)
    for v in range(4 ** 5):
        fam.append((5, {v}, ('bool',)))
    for v in range(0, 4 ** 6, 7 if ctx.quick else 1):
        fam.append((6, {v, (v * 4) % 4 ** 6}, ('bool',)))
    ctx.pmap(_w_valid, core.chunks_of(fam, 200))
    ctx.bounds = {'filter_menu': len(menu), 'k_find': [1, 5 if ctx.quick else 6], 'table_filters_k2': 'all 65536',
                  'valid_graph_masks': 'all 65536 order-2 masks x {bool,int}; all order-1; binary embeddings k=3,4; order-3 complete minus <=2'}
    ctx.rule = ('find_vertices: one case = (k, filter): returned mask compared with the filter\'s own verdict on every k-mer '
                '(asked through the documented positional interface); ValueError iff none accepted. connect_valid_graph: one '
                'case = (k, mask, dtype): accessor compared entry by entry with the induced shift-successor graph; non-trivial = '
                'filter/mask that accepts some but not all k-mers')
    ctx.assumptions = ['user-defined filters implement exactly DefaultBioFilter.valid(self, dna_string)']
    ctx.guard('empty filters occur', ctx.res.ctr['find_empty'] > 0)
    ctx.guard('local filter agrees with C12 reference on k-mers', ctx.res.ctr['local_filter_differs_from_reference(C12)'] == 0)
