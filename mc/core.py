"""Explorer core: deterministic chunked parallel map, merge, violations -> replay files,
known-findings matcher, evidence writer."""
import os, sys, json, time, collections, multiprocessing as mp, traceback, subprocess, signal, hashlib

VERIF = os.path.dirname(os.path.dirname(os.path.abspath(__file__)))
OUT = os.environ.get('VERIF_OUT', VERIF)    # scratch runs against a mutated worktree write elsewhere
REPO = os.environ.get('DSW_REPO', '/repo')
NPROC = int(os.environ.get('VERIF_NPROC', '16'))
SCHEMA = '/root/.vp/EVIDENCE.schema.json'


def import_dsw():
    """Import dsw from REPO's working tree; refuse anything else."""
    if REPO not in sys.path[:1]:
        sys.path.insert(0, REPO)
    import dsw
    f = os.path.realpath(dsw.__file__)
    if not f.startswith(os.path.realpath(REPO) + os.sep):
        raise RuntimeError('dsw imported from %s, not from %s' % (f, REPO))
    import dsw.spiderweb, dsw.graphized, dsw.operation, dsw.biofilter
    return dsw


class Res:
    """What a worker returns for one chunk (plain, picklable, mergeable)."""

    def __init__(self):
        self.evals = 0          # cases generated / oracle comparisons made
        self.states = 0         # distinct canonical cases / states
        self.trans = 0          # real dsw calls executed
        self.nontriv = 0        # distinct non-trivial cases (rule per property)
        self.ctr = collections.Counter()
        self.viol = []          # violation dicts (capped per signature)
        self.nviol = collections.Counter()  # signature -> count (uncapped)
        self.out = set()        # abstract outcomes (small hashables)
        self.samples = []
        self.mx = {}            # name -> max observed
        self.caps = []

    def v(self, sig, kind, case, expected=None, observed=None, note=''):
        self.nviol[sig] += 1
        if self.nviol[sig] <= 3:
            self.viol.append({'sig': sig, 'kind': kind, 'case': case, 'expected': _j(expected),
                              'observed': _j(observed), 'note': note})

    def maxi(self, name, val):
        if val > self.mx.get(name, -1):
            self.mx[name] = val

    def sample(self, s, cap=3):
        if len(self.samples) < cap:
            self.samples.append(_j(s))

    def merge(self, o):
        self.evals += o.evals
        self.states += o.states
        self.trans += o.trans
        self.nontriv += o.nontriv
        self.ctr.update(o.ctr)
        for vv in o.viol:
            n = sum(1 for x in self.viol if x['sig'] == vv['sig'])
            if n < 5:
                self.viol.append(vv)
        self.nviol.update(o.nviol)
        if len(self.out) < 2000000:
            self.out |= o.out
        for s in o.samples:
            if len(self.samples) < 6:
                self.samples.append(s)
        for k, val in o.mx.items():
            self.maxi(k, val)
        self.caps += o.caps


def _j(x):
    """JSON-able rendering."""
    import numpy as np
    if isinstance(x, np.ndarray):
        return x.tolist()
    if isinstance(x, (np.integer,)):
        return int(x)
    if isinstance(x, (np.floating,)):
        return float(x)
    if isinstance(x, (np.bool_,)):
        return bool(x)
    if isinstance(x, dict):
        return {str(k): _j(v) for k, v in x.items()}
    if isinstance(x, (list, tuple, set, frozenset)):
        return [_j(v) for v in x]
    if isinstance(x, BaseException):
        return '%s: %s' % (type(x).__name__, str(x)[:200])
    if isinstance(x, (int, float, str, bool, type(None))):
        return x
    return repr(x)[:300]


_WORK = {}


DEADLINE = [None]


def expired():
    """True once the safety-net deadline has passed: long worker loops poll it and hand back what they have."""
    return DEADLINE[0] is not None and time.time() > DEADLINE[0]


def _call(args):
    i, name, chunk = args
    fn = _WORK[name]
    t0 = time.time()
    if DEADLINE[0] is not None and t0 > DEADLINE[0]:
        r = Res()
        r.caps.append('deadline reached: chunk %r of %s not explored' % (i, name.split('.')[-1]))
        return i, r
    try:
        r = fn(chunk)
    except BaseException as e:  # harness error: never hidden
        r = Res()
        r.ctr['HARNESS_ERROR'] += 1
        r.samples.append('harness error in chunk %r: %s' % (i, traceback.format_exc()[-1500:]))
    r.mx['chunk_wall_s'] = time.time() - t0
    return i, r


class Ctx:
    def __init__(self, pid, tier, seed):
        self.pid, self.tier, self.seed = pid, tier, seed
        self.t0 = time.time()
        self.res = Res()
        self.assumptions = []
        self.cov = {}
        self.rule = ''
        self.exhaustive = True
        self.bounds = {}
        self.level = 'model_checking'
        self.vacuity = []   # (name, ok) guards
        self.quick = (tier == 'quick')
        # a safety net for trees on which calls became pathologically slow: what was found so far is reported
        DEADLINE[0] = self.t0 + float(os.environ.get('VERIF_DEADLINE_S', '1500' if self.quick else '21600'))

    def log(self, *a):
        print('[%s %6.1fs]' % (self.pid, time.time() - self.t0), *a, file=sys.stderr, flush=True)

    def pmap(self, fn, chunks, nproc=None):
        """Map fn over chunks on forked workers; merge in chunk order (deterministic verdict)."""
        chunks = list(chunks)
        name = '%s.%s' % (fn.__module__, fn.__name__)
        _WORK[name] = fn
        nproc = min(nproc or NPROC, max(1, len(chunks)))
        order = list(range(len(chunks)))
        # VERIF_SEED only permutes the order in which chunks are dispatched
        import random
        random.Random(self.seed).shuffle(order)
        results = {}
        if nproc == 1:
            for i in order:
                results[i] = _call((i, name, chunks[i]))[1]
        else:
            c = mp.get_context('fork')
            with c.Pool(nproc) as pool:
                for i, r in pool.imap_unordered(_call, [(i, name, chunks[i]) for i in order], 1):
                    results[i] = r
        total = Res()
        for i in range(len(chunks)):
            total.merge(results[i])
        self.res.merge(total)
        return total

    def guard(self, name, ok):
        self.vacuity.append((name, bool(ok)))

    # -----------------------------------------------------------------------------------------
    def finish(self):
        from . import findings
        res = self.res
        wall = time.time() - self.t0
        known = findings.load(self.pid)
        rc = 0
        lines = []
        unknown = []
        seen_known = set()
        for sig in sorted(res.nviol):
            kf = findings.match(known, sig)
            if kf is not None:
                if kf['signature'] not in seen_known:
                    seen_known.add(kf['signature'])
                    lines.append('KNOWN-FINDING: property=%s %s [%s; %d cases]' % (
                        self.pid, kf['what'], kf['signature'], res.nviol[sig]))
            else:
                unknown.append(sig)
        rdir = os.path.join(OUT, 'replays', self.pid)
        nrep = 0
        if unknown:
            os.makedirs(rdir, exist_ok=True)
            for f in os.listdir(rdir):
                if f.endswith('.json'):
                    os.remove(os.path.join(rdir, f))
            for sig in unknown:
                vs = [x for x in res.viol if x['sig'] == sig][:2]
                for x in vs:
                    nrep += 1
                    path = os.path.join(rdir, '%03d.json' % nrep)
                    with open(path, 'w') as fh:
                        json.dump({'property': self.pid, 'tier': self.tier, 'seed': self.seed,
                                   'signature': sig, 'kind': x['kind'], 'case': x['case'],
                                   'expected': x['expected'], 'observed': x['observed'],
                                   'note': x['note'], 'count_in_run': res.nviol[sig]}, fh, indent=1)
                    lines.append('VIOLATION property=%s replay=%s' % (self.pid, path))
                    if nrep >= 12:
                        break
                if nrep >= 12:
                    break
            rc = 1
        harness = res.ctr.get('HARNESS_ERROR', 0)
        vac = [n for n, ok in self.vacuity if not ok]
        if (harness or vac) and rc == 0:
            rc = 2
        cov = {
            'states': int(res.states), 'transitions': int(res.trans),
            'traces_validated_against_impl': int(res.evals),
            'evaluations': int(res.evals), 'distinct_nontrivial': int(res.nontriv),
            'rule': self.rule, 'exhaustive': bool(self.exhaustive and not res.caps),
            'bounds': self.bounds, 'caps_hit': sorted(set(res.caps))[:20],
            'distinct_outcomes': len(res.out),
            'counters': {k: int(v) for k, v in sorted(res.ctr.items())},
            'maxima': {k: (round(v, 3) if isinstance(v, float) else v) for k, v in sorted(res.mx.items())},
            'samples': res.samples[:6] or ['(none)'],
            'vacuity_guards': {n: ok for n, ok in self.vacuity},
            'known_findings_seen': sorted(seen_known),
            'violation_signatures': {s: int(res.nviol[s]) for s in unknown},
        }
        cov.update(self.cov)
        ev = {'property_id': self.pid, 'tier': self.tier, 'seed': int(self.seed), 'level': self.level,
              'coverage': cov, 'assumptions': self.assumptions, 'wall_s': round(wall, 2),
              'violations': int(sum(res.nviol[s] for s in unknown))}
        os.makedirs(os.path.join(OUT, 'evidence'), exist_ok=True)
        path = os.path.join(OUT, 'evidence', self.pid + '.json')
        with open(path, 'w') as fh:
            json.dump(ev, fh, indent=1, sort_keys=False)
        _validate(path)
        for ln in lines:
            print(ln, flush=True)
        if harness:
            print('HARNESS-ERROR property=%s: %s' % (self.pid, res.samples[-1:]), flush=True)
        if vac:
            print('VACUOUS property=%s guards failed: %s' % (self.pid, vac), flush=True)
        print('%s tier=%s seed=%d states=%d transitions=%d evaluations=%d nontrivial=%d outcomes=%d '
              'violations=%d known=%d wall=%.1fs rc=%d' % (
                  self.pid, self.tier, self.seed, res.states, res.trans, res.evals, res.nontriv,
                  len(res.out), ev['violations'], len(seen_known), wall, rc), flush=True)
        return rc


def _validate(path):
    """Validate the evidence against the schema with the tooling interpreter if it is there."""
    try:
        code = ("import json,jsonschema,sys;"
                "jsonschema.validate(json.load(open(sys.argv[1])),json.load(open(sys.argv[2])))")
        if os.path.exists(SCHEMA):
            p = subprocess.run(['python3-vt', '-c', code, path, SCHEMA], capture_output=True, text=True,
                               timeout=60)
            if p.returncode != 0:
                print('EVIDENCE-INVALID %s: %s' % (path, p.stderr[-400:]), file=sys.stderr)
    except Exception as e:  # tooling absent: the writer's own structure is the fallback
        print('evidence validation skipped: %s' % e, file=sys.stderr)


def chunks_of(seq, n):
    seq = list(seq)
    return [seq[i:i + n] for i in range(0, len(seq), n)]


def ranges(total, n):
    return [(a, min(a + n, total)) for a in range(0, total, n)]


def h8(*a):
    return hashlib.blake2b(repr(a).encode(), digest_size=6).hexdigest()
