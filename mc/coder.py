"""Shared exploration of the coder (encode / decode) used by C01, C05 (and parts of C02, C04).

A *case* is (graph rows G, start, table rows or None, bits, fast).  `rt_case` runs the real
encode and decode on it and applies the oracle(s) selected by `which`:
  'C01'  decode(encode(m)) == m, also with a VT check of every length in VT_LENS (per distinct strand)
  'C05'  encode(m) == ref_encode(m) character for character
"""
import itertools
import numpy as np
from . import core, oracle as O, util as U
from .observe import run as brun

VT_LENS = (1, 2, 3, 5)
_vt_seen = set()       # per-process: strands whose check round trip was already exercised
_LAST = {}             # the last completed case, written out as a concrete sample


def tname(T):
    if T is None:
        return 'none'
    if all(list(r) == [0, 1, 2, 3] for r in T):
        return 'identity'
    return 'shuffled'


def budget(L, n):
    """loop budget of one encode / decode call: steps x vertices, plus the quadratic cost of the decimal-string arithmetic"""
    return 64 * (L + 2) * (n + 2) + 8 * L * L + 4000


def case_of(k, G, start, T, bits, fast, extra=None):
    c = {'k': k, 'G': G, 'start': start, 'table': T, 'bits': ''.join(str(int(b)) for b in bits), 'fast': bool(fast)}
    if extra:
        c.update(extra)
    return c


def rt_case(r, which, k, G, acc, start, T, tab, bits, fast, vt=True, degs=None):
    import dsw
    L = len(bits)
    mode = 'fast' if fast else 'normal'
    pre = '%s|%s|table=%s|' % (which, mode, tname(T))
    msg = np.array(bits, dtype=int)
    st, s, loops = brun(dsw.encode, msg, acc, start, is_faster=fast, shuffles=tab, lim=budget(L, len(G)))
    r.trans += 1
    r.evals += 1
    if st != 'ok' or not isinstance(s, str):
        what = 'encode-does-not-terminate' if st == 'budget' else 'encode-raised-%s' % type(s).__name__ if st == 'exc' else 'encode-returned-non-string'
        if fast and st == 'exc' and isinstance(s, IndexError):
            what += '|odd-tail' if _odd_tail(bits, G, start, T) else ''
        r.v(pre + what, 'rt', case_of(k, G, start, T, bits, fast), 'a strand', repr(s)[:200])
        return None
    r.maxi('encode_loops', loops)
    if any(bits):
        r.nontriv += 1
        _LAST['case'] = {'k': k, 'accessor': G if len(G) <= 16 else 'order-%d graph with %d arcs' % (k, sum(1 for row in G for x in row if x >= 0)),
                         'start': start, 'table': T if (T is None or len(T) <= 16) else 'latin table', 'message': ''.join(map(str, bits)) if len(bits) <= 64 else '%d bits' % len(bits),
                         'mode': 'fast' if fast else 'normal', 'strand': s if len(s) <= 80 else s[:77] + '...'}
    if which == 'C05':
        try:
            exp = O.ref_encode(bits, G, start, T, fast)
        except O.RefError as e:
            r.ctr['HARNESS_ERROR'] += 1
            r.samples.append('reference failed on a well-formed case: %r %r' % (e, case_of(k, G, start, T, bits, fast)))
            return s
        if s != exp:
            r.v(pre + 'strand-differs-from-reference-walk', 'rt', case_of(k, G, start, T, bits, fast), exp, s)
        return s
    # C01
    st, back, loops = brun(dsw.decode, s, L, acc, start, is_faster=fast, shuffles=tab, lim=budget(L + len(s), len(G)))
    r.trans += 1
    if st != 'ok':
        what = 'decode-does-not-terminate' if st == 'budget' else 'decode-raised-%s' % type(back).__name__
        r.v(pre + what, 'rt', case_of(k, G, start, T, bits, fast), list(bits), repr(back)[:200])
    elif not _same_bits(back, bits):
        r.v(pre + 'decoded-bits-differ', 'rt', case_of(k, G, start, T, bits, fast), list(bits), back)
    if vt and not fast and (s, L > 0) not in _vt_seen:
        _vt_seen.add((s, L > 0))
        for n in VT_LENS:
            vt_case(r, k, G, acc, start, T, tab, bits, fast, n, s)
    return s


def vt_case(r, k, G, acc, start, T, tab, bits, fast, n, s=None):
    import dsw
    L = len(bits)
    mode = 'fast' if fast else 'normal'
    pre = 'C01|%s|vt|' % mode
    msg = np.array(bits, dtype=int)
    case = case_of(k, G, start, T, bits, fast, {'vt': n})
    st, res, _ = brun(dsw.encode, msg, acc, start, is_faster=fast, shuffles=tab, vt_length=n, lim=budget(L, len(G)))
    r.trans += 1
    r.evals += 1
    if st != 'ok':
        r.v(pre + 'encode-with-check-raised-%s%s' % (type(res).__name__ if st == 'exc' else 'budget', '|empty-strand' if s == '' else ''),
            'vt', case, '(strand, check)', repr(res)[:200])
        return
    if not (isinstance(res, tuple) and len(res) == 2 and isinstance(res[1], str)):
        r.v(pre + 'encode-with-check-does-not-return-pair', 'vt', case, '(strand, check)', repr(res)[:200])
        return
    s2, chk = res
    if s is not None and s2 != s:
        r.v(pre + 'strand-changes-when-check-requested', 'vt', case, s, s2)
    if len(chk) != n:
        r.v(pre + 'check-has-wrong-length', 'vt', case, n, chk)
    st, back, _ = brun(dsw.decode, s2, L, acc, start, is_faster=fast, shuffles=tab, vt_check=chk, lim=budget(L + len(s2), len(G)))
    r.trans += 1
    if st != 'ok':
        r.v(pre + 'decode-with-own-check-raised-%s%s' % (type(back).__name__ if st == 'exc' else 'budget', '|empty-strand' if s2 == '' else ''),
            'vt', case, list(bits), repr(back)[:200])
    elif not _same_bits(back, bits):
        r.v(pre + 'decoded-bits-differ', 'vt', case, list(bits), back)


def _same_bits(back, bits):
    try:
        a = np.asarray(back)
        if a.ndim != 1 or len(a) != len(bits):
            return False
        return all(int(x) == int(y) and x == y for x, y in zip(a.tolist(), bits))
    except Exception:
        return False


def _odd_tail(bits, G, start, T):
    """True when the fast-mode reference meets a 4-way vertex with a single bit left."""
    v, loc, L = start, 0, len(bits)
    for _ in range(10 * (L + 2) * (len(G) + 2)):
        if loc >= L:
            return False
        live = O.outs(G, v)
        rr = len(live)
        if rr == 4:
            if loc + 1 >= L:
                return True
            d = bits[loc] * 2 + bits[loc + 1]
            loc += 2
        elif rr == 2:
            d = bits[loc]
            loc += 1
        elif rr == 1:
            d = 0
        else:
            return False
        j = O.pick(live, T[v] if T is not None else None, d) if rr > 1 else live[0]
        v = G[v][j]
    return False


def replay_rt(r, which, case):
    G = case['G']
    acc = U.A(G)
    T = case['table']
    tab = None if T is None else np.array(T, dtype=int)
    bits = [int(c) for c in case['bits']]
    if 'vt' in case:
        vt_case(r, case['k'], G, acc, case['start'], T, tab, bits, case['fast'], case['vt'])
    else:
        _vt_seen.clear()
        rt_case(r, which, case['k'], G, acc, case['start'], T, tab, bits, case['fast'])


# ---------------------------------------------------------------------------------------------
def no_deg3(G, R):
    return all(len(O.outs(G, v)) != 3 for v in R)


def induced_orders(G, verts):
    """All tables that differ from the identity only through the induced order on the live arcs of
    the vertices in `verts` (one representative row per induced order)."""
    per = []
    for v in verts:
        live = O.outs(G, v)
        rows = []
        for p in itertools.permutations(range(len(live))):
            row = [0, 1, 2, 3]
            # give the live arcs the ranks p, keep dead arcs on the remaining values
            vals = sorted(row[j] for j in live)
            for i, j in enumerate(live):
                row[j] = vals[p[i]]
            rows.append(row)
        per.append(rows)
    return per


def tables_T2(G, R):
    """Every combination of induced orders at every reachable vertex (only for |R| <= 2)."""
    R = sorted(R)
    per = induced_orders(G, R)
    out = []
    for combo in itertools.product(*per):
        T = [[0, 1, 2, 3] for _ in range(len(G))]
        for v, row in zip(R, combo):
            T[v] = list(row)
        out.append(T)
    return out


def tables_T3(G, R):
    """Deviation bound 1: exactly one reachable vertex with a non-identity induced order."""
    out = []
    for v in sorted(R):
        for row in induced_orders(G, [v])[0][1:]:
            T = [[0, 1, 2, 3] for _ in range(len(G))]
            T[v] = list(row)
            out.append(T)
    return out


def explore_class(r, which, k, G, start, R, plan, fastok=None):
    """plan: list of (tables, Lmax, modes) with tables a list of table rows or None entries."""
    acc = U.A_reuse(G)
    if fastok is None:
        fastok = no_deg3(G, R)
    n = 0
    for tables, Lmax, want_fast in plan:
        for T in tables:
            tab = None if T is None else np.array(T, dtype=int)
            for bits in U.all_bits(Lmax):
                rt_case(r, which, k, G, acc, start, T, tab, bits, False)
                n += 1
                if want_fast and fastok:
                    rt_case(r, which, k, G, acc, start, T, tab, bits, True)
                    n += 1
            if tab is not None and U.rows(tab) != [list(x) for x in T]:
                r.v('%s|table-argument-modified-by-the-coder' % which, 'tabmod', {'k': k, 'G': G, 'start': start, 'table': T, 'Lmax': Lmax},
                    T if len(T) <= 16 else None, U.rows(tab) if len(T) <= 16 else None)
    return n


def zero_run_messages():
    """Leading-zero sweep: 0^z followed by a short or a long non-zero word, for every z in 0..48 and
    around 64 - block boundaries of any word size up to 64 bits are crossed at every offset."""
    out = []
    tails = [[1], [1, 0, 1, 0], [1, 1, 1, 1, 1], [1] * 16, [1] + [0] * 15 + [1], [1, 0, 0, 1, 1, 1, 0, 1, 0, 1, 1]]
    for z in list(range(0, 49)) + [63, 64, 65]:
        for t in tails:
            out.append([0] * z + t)
    return out


def round_value_messages():
    """Message values next to c * 10^e: the running decimal quotient crosses a 9- or 18-digit block
    boundary with a carry / borrow chain right there (radix 3 reaches ...999999999 + digit)."""
    out, seen = [], set()
    for e in (9, 10, 18, 19, 27):
        for c in (1, 2, 3, 4, 5, 7, 9):
            for delta in (-1, 0, 1, 2):
                V = c * 10 ** e + delta
                for w in (V.bit_length(), V.bit_length() + 1, 64 if V.bit_length() <= 64 else 96):
                    if (V, w) not in seen and w >= V.bit_length():
                        seen.add((V, w))
                        out.append(U.bits_of(V, w))
    # three-block values a.m.delta in blocks of 9, 15 and 18 digits whose middle block starts with zeros:
    # a carry out of the low block stops in a block that is neither the lowest nor the top one
    for B in (10 ** 9, 10 ** 15, 10 ** 18):
        for a in (7, 31):
            for m in (1, 12345681, B // 10, B // 10 - 1, B // 1000 + 999):
                for delta in (0, 1, 2):
                    V = a * B * B + m * B + delta
                    for w in (V.bit_length(), V.bit_length() + 1):
                        if (V, w) not in seen:
                            seen.add((V, w))
                            out.append(U.bits_of(V, w))
    return out


def long_messages(Ls):
    out = []
    for L in Ls:
        h = L // 2
        out += [[1] * L, [0] * L, [1] + [0] * (L - 1), [0] * (L - 1) + [1], ([1, 0] * h + [1] * (L % 2)),
                ([0, 1] * h + [0] * (L % 2)), [1] * h + [0] * (L - h)]
    return out


LITERAL = [[-1, -1, -1, -1], [4, -1, -1, 7], [8, -1, -1, 11], [-1, -1, -1, -1], [-1, 1, 2, -1], [-1, -1, -1, -1],
           [-1, -1, -1, -1], [-1, 13, 14, -1], [-1, 1, 2, -1], [-1, -1, -1, -1], [-1, -1, -1, -1], [-1, 13, 14, -1],
           [-1, -1, -1, -1], [4, -1, -1, 7], [8, -1, -1, 11], [-1, -1, -1, -1]]


# ---------------------------------------------------------------------------------------------
# Universe drivers shared by C01 and C05
def plan_for(G, R, quick, nverts):
    ident = U.table_identity(nverts)
    T1 = [U.table_reversal(nverts), U.table_latin(nverts, 1), U.table_latin(nverts, 7)]
    if quick:
        plan = [([None], 4, True), ([ident], 2, True), (T1[:2], 3, True)]
        if len(R) <= 2:
            plan.append((tables_T2(G, R), 5, True))
    else:
        plan = [([None], 7, True), ([ident], 3, True), (T1, 4, True), (tables_T3(G, R), 4, True)]
        if len(R) <= 2:
            plan.append((tables_T2(G, R), 6, True))
    return plan


def w_g1(args):
    which, quick, lo, hi = args
    r = core.Res()
    for code in range(lo, hi):
        if core.expired():
            r.caps.append('deadline reached inside a chunk')
            break
        G, classes = U.k1_classes(code)
        for start, wf, nr in classes:
            r.ctr['g1_classes'] += 1
            if not wf:
                continue
            r.ctr['g1_wellformed'] += 1
            R = O.reach(G, start)
            degs = frozenset(len(O.outs(G, v)) for v in R)
            r.out.add(degs)
            n0 = r.evals
            explore_class(r, which, 1, G, start, R, plan_for(G, R, quick, 4))
            # differential: garbage in the rows of unreachable vertices must not matter
            if len(R) < 4:
                G2 = [list(G[v]) if v in R else [0, 1, 2, 3] for v in range(4)]
                acc2, acc = U.A(G2), U.A(G)
                for bits in U.all_bits(2):
                    diff_case(r, which, 1, G, G2, start, bits)
            r.states += r.evals - n0
    if _LAST.get('case'):
        r.sample(_LAST['case'], 1)
    return r


def diff_case(r, which, k, G, G2, start, bits):
    import dsw
    msg = np.array(bits, dtype=int)
    L = len(bits)
    a = brun(dsw.encode, msg, U.A(G), start, lim=budget(L, len(G)))
    b = brun(dsw.encode, msg, U.A(G2), start, lim=budget(L, len(G)))
    r.trans += 2
    r.evals += 1
    if a[0] != b[0] or (a[0] == 'ok' and a[1] != b[1]):
        r.v('%s|normal|result-depends-on-unreachable-rows' % which, 'diff', {'k': k, 'G': G, 'G2': G2, 'start': start,
                                                                            'bits': ''.join(map(str, bits))}, repr(a[1]), repr(b[1]))
        return
    if a[0] == 'ok' and isinstance(a[1], str):
        c = brun(dsw.decode, a[1], L, U.A(G), start, lim=budget(L + len(a[1]), len(G)))
        d = brun(dsw.decode, a[1], L, U.A(G2), start, lim=budget(L + len(a[1]), len(G)))
        r.trans += 2
        if c[0] != d[0] or (c[0] == 'ok' and not _same_bits(c[1], list(np.asarray(d[1]).tolist()))):
            r.v('%s|normal|decode-depends-on-unreachable-rows' % which, 'diff', {'k': k, 'G': G, 'G2': G2, 'start': start,
                                                                                'bits': ''.join(map(str, bits))}, repr(c[1]), repr(d[1]))


def binary_arc_graphs(k, a, b, max_removed=None):
    """Arc subsets of the binary de Bruijn graph over letters a,b embedded in order k."""
    verts = [O.idx(''.join(p)) for p in itertools.product(O.NUC[a] + O.NUC[b], repeat=k)]
    arcs = [(u, j) for u in verts for j in (a, b)]
    n = len(arcs)
    if max_removed is None:
        subsets = range(1 << n)
    else:
        subsets = []
        full = (1 << n) - 1
        for d in range(max_removed + 1):
            for rem in itertools.combinations(range(n), d):
                m = full
                for i in rem:
                    m &= ~(1 << i)
                subsets.append(m)
    for m in subsets:
        G = [[-1] * 4 for _ in range(4 ** k)]
        for i in range(n):
            if m >> i & 1:
                u, j = arcs[i]
                G[u][j] = O.succ(u, k)[j]
        yield m, verts, G


def w_graphs(args):
    """Explicit list of (k, G, starts) with a plan selector."""
    which, quick, items = args
    r = core.Res()
    for k, G, starts, Ls in items:
        crb = O.can_reach_branch(G)
        nv = len(G)
        for start in starts:
            R = O.reach(G, start)
            if not all(v in crb for v in R):
                continue
            r.ctr['other_wellformed_classes'] += 1
            r.out.add(frozenset(len(O.outs(G, v)) for v in R))
            T1 = [U.table_reversal(nv), U.table_latin(nv, 1), U.table_latin(nv, 7)]
            plan = [([None], Ls[0], True), (T1, Ls[1], True)]
            if not quick and len(R) <= 6:
                plan.append((tables_T3(G, R), Ls[1], True))
            n0 = r.evals
            explore_class(r, which, k, G, start, R, plan)
            r.states += r.evals - n0
    if _LAST.get('case'):
        r.sample(_LAST['case'], 1)
    return r


def other_graphs(quick):
    items = []
    alph = list(itertools.combinations(range(4), 2))
    for a, b in alph:
        for m, verts, G in binary_arc_graphs(2, a, b):
            items.append((2, G, verts, (5, 4) if quick else (8, 5)))
    for a, b in (alph[:1] if quick else alph[:2]):
        for m, verts, G in binary_arc_graphs(3, a, b, max_removed=2 if quick else 4):
            items.append((3, G, verts, (4, 3) if quick else (6, 4)))
    allarcs = [(u, j) for u in range(16) for j in range(4)]
    rems = [()] + [(x,) for x in allarcs] + ([] if quick else list(itertools.combinations(allarcs, 2)))
    for rem in rems:
        G = O.complete(2)
        for u, j in rem:
            G[u][j] = -1
        items.append((2, G, list(range(16)), (4, 3) if quick else (5, 3)))
    return items


def fixed_graphs():
    """Named graphs for the long-message family (built by the reference, not by dsw)."""
    from .props.C03 import filter_masks
    out = [('complete-2', 2, O.complete(2)), ('complete-3', 3, O.complete(3)), ('complete-5', 5, O.complete(5)),
           ('gc-balanced-literal', 2, [list(x) for x in LITERAL])]
    # every out-degree 3 (ternary de Bruijn graphs) and a 1/2/3/4 mixture: radix 3 on long numbers
    for k in (2, 3):
        tern = {O.idx(''.join(p)) for p in itertools.product('ACG', repeat=k)}
        out.append(('ternary-%d' % k, k, O.from_mask(tern, k)))
    mixed = O.complete(2)
    for u, j in ((0, 0), (1, 1), (1, 2), (5, 0), (5, 1), (5, 3), (10, 2), (15, 3), (7, 0), (7, 3)):
        mixed[u][j] = -1
    out.append(('mixed-1234', 2, mixed))
    out.append(('mixed-order1', 1, [[0, 1, 2, 3], [0, -1, 2, -1], [-1, 1, -1, -1], [0, 1, 2, -1]]))
    fm = filter_masks(3, 4)
    for i in (1, 3, 8, 12 + 0, 12 + 4, 12 + 6):
        k, mask = fm[i]
        for t in (1, 2):
            S = O.gfp(mask, k, t)
            if S:
                out.append(('filter-%d-k%d-t%d' % (i, k, t), k, O.from_mask(S, k)))
    return out


def w_long(args):
    which, name, k, G, start, fast, T, bits = args
    r = core.Res()
    acc = U.A(G)
    tab = None if T is None else np.array(T, dtype=int)
    s_ = rt_case(r, which, k, G, acc, start, T, tab, bits, fast, vt=False)
    if which == 'C05' and isinstance(s_, str):
        # reading the strand back: the digit value rendered big-endian at the message width
        import dsw
        L = len(bits)
        st, back, _ = brun(dsw.decode, s_, L, acc, start, is_faster=fast, shuffles=tab, lim=budget(L + len(s_), len(G)))
        r.trans += 1
        r.evals += 1
        if fast:
            exp = list(bits)
        else:
            exp = O.value_bits(O.ref_value(s_, G, start, T), L) if O.is_walk(G, start, s_) else None
        if exp is not None and (st != 'ok' or not _same_bits(back, exp)):
            r.v('C05|decode-walk|%s|table=%s|long-strand-value-not-big-endian-at-width' % ('fast' if fast else 'normal', tname(T)), 'long',
                case_of(k, G, start, T, bits, fast, {'name': name}), exp[:64], back if st == 'ok' else repr(back))
    if which == 'C01' and not fast:
        vt_case(r, k, G, acc, start, T, tab, bits, fast, 4)
    r.states += 1
    if _LAST.get('case'):
        r.sample(_LAST['case'], 1)
    r.maxi('long_message_bits', len(bits))
    r.ctr['long_family_cases'] += 1
    return r


def long_jobs(which, quick):
    jobs = []
    Ls = [31, 32, 33, 63, 64, 65, 127, 128, 255, 256] + ([] if quick else [512, 1024])
    for name, k, G in fixed_graphs():
        live = sorted(O.has_arcs(G))
        crb = O.can_reach_branch(G)
        starts = [v for v in (live[0], live[-1]) if O.wellformed_start(G, v, crb)]
        starts = sorted(set(starts))
        nv = len(G)
        for start in starts:
            R = O.reach(G, start)
            for T in (None, U.table_latin(nv, 1)):
                for bits in long_messages(Ls):
                    if quick and ((len(bits) > 128 and k == 5) or (len(bits) > 65 and T is not None)):
                        continue
                    jobs.append((which, name, k, G, start, False, T, bits))
                    if no_deg3(G, R):
                        jobs.append((which, name, k, G, start, True, T, bits))
    sweep = zero_run_messages()
    for name, k, G in fixed_graphs():
        if name not in ('complete-2', 'gc-balanced-literal', 'ternary-2', 'mixed-1234', 'mixed-order1'):
            continue
        live = sorted(O.has_arcs(G))
        start = live[0]
        if not O.wellformed_start(G, start):
            continue
        R = O.reach(G, start)
        for bits in sweep + (round_value_messages() if name in ('ternary-2', 'mixed-1234', 'mixed-order1', 'complete-2') else []):
            jobs.append((which, name, k, G, start, False, None, bits))
            if no_deg3(G, R) and len(bits) % 3 == 0:
                jobs.append((which, name, k, G, start, True, None, bits))
    jobs.sort(key=lambda j: -len(j[7]))
    return jobs


def run_universes(ctx, which):
    quick = ctx.quick
    ctx.pmap(w_g1, [(which, quick, lo, hi) for lo, hi in core.ranges(1 << 16, 256)])
    ctx.log('G1 done', ctx.res.evals)
    items = other_graphs(quick)
    ctx.pmap(w_graphs, [(which, quick, c) for c in core.chunks_of(items, 12)])
    ctx.log('G3/G4 done', ctx.res.evals)
    ctx.pmap(w_long, long_jobs(which, quick))
    ctx.log('long family done', ctx.res.evals)
    ctx.bounds.update({
        'G1': 'all 158,824 reachable-canonical (graph,start) classes of the 65,536 order-1 arc subsets; well-formed ones explored',
        'G1_plan': 'no table L<=%d; identity L<=%d; reversal + latin table(s) L<=%d; all induced orders on classes with <=2 reachable vertices L<=%d%s'
                   % ((4, 2, 3, 5, '') if quick else (7, 3, 4, 6, '; one deviant vertex with every induced order L<=4')),
        'G3': 'all arc subsets of the 6 binary embeddings at order 2; order 3: %s' % ('1 alphabet, <=2 arcs removed' if quick else '2 alphabets, <=4 arcs removed'),
        'G4': 'complete order-2 graph minus at most %d arcs, all 16 starts' % (1 if quick else 2),
        'long_family_bits': [31, 32, 33, 63, 64, 65, 127, 128, 255, 256] + ([] if quick else [512, 1024]),
        'modes': 'normal everywhere; fast where the reachable part has no out-degree 3'})
