"""known_findings.json: committed, read-only at run time.  Only status == 'known' entries are
matched, by exact signature; 'fixed' entries are documentation and suppress nothing."""
import json, os

PATH = os.path.join(os.path.dirname(os.path.dirname(os.path.abspath(__file__))), 'known_findings.json')


def load(pid):
    if not os.path.exists(PATH):
        return []
    with open(PATH) as fh:
        d = json.load(fh)
    return [f for f in d.get('findings', []) if f.get('status') == 'known' and f.get('property') == pid]


def match(known, sig):
    for f in known:
        if f['signature'] == sig:
            return f
    return None
