"""Running the real generation pipeline (find_vertices -> connect_coding_graph) and describing
its result for the checks that quantify over generated graphs (C02, C04, C08-C10, C19)."""
import numpy as np
from . import core, oracle as O, util as U
from .observe import run as brun


def gen_from_mask(k, mask, t, lim=None):
    """Real connect_coding_graph on a vertex set.  Returns (tag, G rows or None, acc or None)."""
    import dsw
    n = 4 ** k
    m = np.zeros(n, dtype=bool)
    if mask:
        m[sorted(mask)] = True
    st, res, _ = brun(dsw.connect_coding_graph, observed_length=k, vertices=m, threshold=t, lim=lim or (4000 * n + 20000))
    if st != 'ok':
        return ('ValueError' if st == 'exc' and type(res) is ValueError else st if st == 'budget' else 'exc:' + type(res).__name__), None, None
    try:
        acc = np.asarray(res[1])
        return 'ok', U.rows(acc), acc
    except Exception:
        return 'badreturn', None, None


def gen_from_filter(k, f, t):
    import dsw
    st, vs, _ = brun(dsw.find_vertices, observed_length=k, bio_filter=f, lim=200 * 4 ** k * (k + 2) + 10000)
    if st != 'ok':
        return ('ValueError' if st == 'exc' and type(vs) is ValueError else 'find:' + (type(vs).__name__ if st == 'exc' else st)), None, None, None
    mask = {i for i, x in enumerate(np.asarray(vs).tolist()) if x}
    tag, G, acc = gen_from_mask(k, mask, t)
    return tag, G, acc, mask


def graph_invariants(G, k):
    """State invariants of a generated graph that make encoding total for every message length:
    shift-append arcs, every arc target has arcs itself (no dead end), no cycle among
    out-degree-1 vertices.  Returns (problems, longest out-degree-1 chain)."""
    probs = []
    if not O.wellformed_arcs(G, k):
        probs.append('arc-not-shift-append')
    live = O.has_arcs(G)
    for v in live:
        for w in G[v]:
            if w >= 0 and w not in live:
                probs.append('dead-end')
                break
        else:
            continue
        break
    ok, longest = O.deg1_cycle_free(G)
    if not ok:
        probs.append('cycle-of-out-degree-1-vertices')
    return probs, longest
