"""Observation without source hooks: deterministic loop budgets (sys.monitoring), argument
snapshots, stdout capture, module-state hashing."""
import sys, types, io, contextlib, hashlib, pickle
import numpy as np


class Budget(BaseException):
    """Raised from the monitoring callback when the loop-iteration budget of a call is exceeded.
    BaseException so that no `except Exception` in the code under test can swallow it."""


_st = {'n': 0, 'lim': 10 ** 15, 'installed': False, 'per': None}


def _cb(code, src, dst):
    if dst < src:
        _st['n'] += 1
        per = _st['per']
        if per is not None:
            per[code.co_name] = per.get(code.co_name, 0) + 1
        if _st['n'] > _st['lim']:
            _st['lim'] = 10 ** 15
            raise Budget()


def install(modules):
    """Enable backward-jump counting on every code object defined in `modules`."""
    if _st['installed']:
        return 0
    mon = sys.monitoring
    T = mon.DEBUGGER_ID
    mon.use_tool_id(T, 'dswverif')
    mon.register_callback(T, mon.events.JUMP, _cb)
    mon.register_callback(T, mon.events.BRANCH, _cb)
    seen = set()

    def walk(co):
        if co in seen:
            return
        seen.add(co)
        mon.set_local_events(T, co, mon.events.JUMP | mon.events.BRANCH)
        for c in co.co_consts:
            if isinstance(c, types.CodeType):
                walk(c)

    for m in modules:
        for name, obj in list(vars(m).items()):
            if isinstance(obj, types.FunctionType) and obj.__module__ == m.__name__:
                walk(obj.__code__)
            if isinstance(obj, type) and obj.__module__ == m.__name__:
                for a, b in vars(obj).items():
                    if isinstance(b, types.FunctionType):
                        walk(b.__code__)
    _st['installed'] = True
    return len(seen)


def run(f, *a, lim=10 ** 7, per=False, **k):
    """Run f under a loop budget.  Returns (status, value, loops) with status in
    'ok' | 'exc' | 'budget'.  For 'exc' value is the exception object."""
    _st['n'] = 0
    _st['lim'] = lim
    _st['per'] = {} if per else None
    try:
        r = f(*a, **k)
        return 'ok', r, _st['n']
    except Budget:
        return 'budget', None, _st['n']
    except Exception as e:  # noqa
        return 'exc', e, _st['n']
    finally:
        _st['lim'] = 10 ** 15


def per_code():
    return dict(_st['per'] or {})


def exc_name(e):
    return type(e).__name__


# ---------------------------------------------------------------------------------------------
def snap(x):
    """Bit-for-bit snapshot of an argument (bytes + dtype + shape for arrays; structure otherwise)."""
    if isinstance(x, np.ndarray):
        return ('nd', x.dtype.str, x.shape, x.tobytes(), bool(x.flags.writeable))
    if isinstance(x, dict):
        return ('dict', tuple((snap(k), snap(v)) for k, v in x.items()))
    if isinstance(x, (list, tuple)):
        return (type(x).__name__, tuple(snap(v) for v in x))
    if isinstance(x, (np.integer, np.floating, np.bool_)):
        return ('npscalar', x.dtype.str, x.item())
    if isinstance(x, (int, float, str, bool, type(None), bytes)):
        return (type(x).__name__, x)
    if hasattr(x, '__dict__'):
        return ('obj', type(x).__name__, snap(dict(vars(x))))
    return ('repr', repr(x))


@contextlib.contextmanager
def capture():
    buf = io.StringIO()
    with contextlib.redirect_stdout(buf):
        yield buf


def module_state(modules):
    """Hash of everything a call could hide state in: module globals (non-function, non-module
    values), function defaults / kwdefaults, class dicts."""
    h = hashlib.sha256()
    for m in modules:
        for name in sorted(vars(m)):
            if name.startswith('__'):
                continue
            obj = vars(m)[name]
            if isinstance(obj, types.ModuleType):
                continue
            if isinstance(obj, types.FunctionType):
                if obj.__module__ != m.__name__:
                    continue
                h.update(repr((name, 'defaults', snap(obj.__defaults__), snap(obj.__kwdefaults__),
                               sorted(obj.__dict__.items()))).encode())
            elif isinstance(obj, type):
                if obj.__module__ != m.__name__:
                    continue
                for a in sorted(vars(obj)):
                    b = vars(obj)[a]
                    if isinstance(b, types.FunctionType):
                        h.update(repr((name, a, snap(b.__defaults__), snap(b.__kwdefaults__))).encode())
                    elif not a.startswith('__'):
                        h.update(repr((name, a, snap(b))).encode())
            elif isinstance(obj, (types.BuiltinFunctionType, np.ufunc)) or callable(obj):
                h.update(repr((name, 'callable', getattr(obj, '__module__', None),
                               getattr(obj, '__qualname__', getattr(obj, '__name__', None)))).encode())
            else:
                h.update(repr((name, snap(obj))).encode())
    return h.hexdigest()
