"""Glue between the plain-Python reference world and the numpy arguments of dsw."""
import itertools
import numpy as np
from . import oracle as O

NUC = "ACGT"
PERMS = list(itertools.permutations(range(4)))


def A(G):
    return np.array(G, dtype=int).reshape(-1, 4)


_BUF = {}


def A_reuse(G):
    """The same array object for every graph of a given shape, rewritten in place - what a caller
    does who keeps one accessor and trims or refills it.  A correct library cannot tell the
    difference; anything keyed on the identity of the array can."""
    n = len(G)
    b = _BUF.get(n)
    if b is None:
        b = _BUF[n] = np.full((n, 4), -1, dtype=int)
    b[...] = G
    return b


def rows(arr):
    return [[int(x) for x in r] for r in arr]


def same_ints(x, y):
    """Element-wise integer equality, agnostic of container / dtype."""
    try:
        x = list(x)
        if len(x) != len(y):
            return False
        return all(int(a) == int(b) and float(a) == float(b) for a, b in zip(x, y))
    except Exception:
        return False


def bits_of(n, L):
    return [(n >> (L - 1 - i)) & 1 for i in range(L)]


def all_bits(Lmax, Lmin=0):
    for L in range(Lmin, Lmax + 1):
        for n in range(1 << L):
            yield bits_of(n, L)


def all_strings(n, alphabet=NUC, nmin=0):
    for L in range(nmin, n + 1):
        for p in itertools.product(alphabet, repeat=L):
            yield ''.join(p)


def walks(G, start, n):
    """All walks of exactly n steps from start (as strings)."""
    out = []

    def rec(v, s):
        if len(s) == n:
            out.append(s)
            return
        for j in range(4):
            w = G[v][j]
            if w >= 0:
                rec(w, s + NUC[j])
    rec(start, '')
    return out


def walks_upto(G, start, n):
    out = []

    def rec(v, s):
        out.append(s)
        if len(s) == n:
            return
        for j in range(4):
            w = G[v][j]
            if w >= 0:
                rec(w, s + NUC[j])
    rec(start, '')
    return out


def walks_dev(G, start, n, d):
    """Walks of n steps with at most d non-default arc choices (default = first live arc)."""
    out = []

    def rec(v, s, used):
        if len(s) == n:
            out.append(s)
            return
        live = O.outs(G, v)
        for i, j in enumerate(live):
            cost = used + (1 if i > 0 else 0)
            if cost > d:
                continue
            rec(G[v][j], s + NUC[j], cost)
    rec(start, '', 0)
    return out


def single_edits(s, lo=0, hi=None):
    """All single edits at positions lo..hi-1: (kind, pos, nucleotide, corrupted)."""
    hi = len(s) if hi is None else hi
    out = []
    for p in range(lo, hi):
        for c in NUC:
            if c != s[p]:
                out.append(('S', p, c, s[:p] + c + s[p + 1:]))
        for c in NUC:
            out.append(('I', p, c, s[:p] + c + s[p:]))
        out.append(('D', p, s[p], s[:p] + s[p + 1:]))
    return out


def apply_edit(s, e):
    kind, p, c = e[0], e[1], e[2]
    if kind == 'S':
        return s[:p] + c + s[p + 1:]
    if kind == 'I':
        return s[:p] + c + s[p:]
    return s[:p] + s[p + 1:]


# ------------------------------------------------------------------ G1 universe (order-1 arc subsets)
def k1_classes(code):
    """For one 16-bit arc code: the starts for which (code, start) is a reachable-canonical class
    (every vertex that has an arc is reachable from start), with flags."""
    G = O.k1graph(code)
    witharcs = O.has_arcs(G)
    res = []
    crb = None
    for s in range(4):
        R = O.reach(G, s)
        if witharcs <= R:
            if crb is None:
                crb = O.can_reach_branch(G)
            wf = all(v in crb for v in R)
            res.append((s, wf, len(R)))
    return G, res


def table_identity(n):
    return [[0, 1, 2, 3] for _ in range(n)]


def table_reversal(n):
    return [[3, 2, 1, 0] for _ in range(n)]


def table_latin(n, s):
    return [list(PERMS[(v + s) % 24]) for v in range(n)]


def rule_walk(G, start, n, a=7, b=3):
    """Deterministic long walk: at step i take live arc number (a*i + b) mod out-degree."""
    v, out = start, []
    for i in range(n):
        live = O.outs(G, v)
        if not live:
            break
        j = live[(a * i + b) % len(live)]
        out.append(NUC[j])
        v = G[v][j]
    return ''.join(out)


def lcg_walk(G, start, n, seed):
    """Deterministic non-periodic long walk: the live arc taken at each step comes from a fixed linear
    congruential sequence (no random module, no state outside the call) - a fixed member of an
    enumerated family indexed by seed, used where rule_walk's walks are too periodic."""
    from . import oracle as O
    v, out, x = start, [], (seed * 2654435761 + 12345) % (2 ** 31)
    for i in range(n):
        live = O.outs(G, v)
        if not live:
            break
        x = (x * 1103515245 + 12345) % (2 ** 31)
        j = live[(x >> 12) % len(live)]
        out.append(NUC[j])
        v = G[v][j]
    return ''.join(out)
