#!/bin/bash
# tools/run_all.sh quick|thorough [Cxx ...]  - runs the checks one after another and prints one summary line each
cd "$(dirname "$0")/.." || exit 2
tier=${1:-quick}; shift
ids=("$@"); [ ${#ids[@]} -eq 0 ] && ids=(C13 C16 C18 C07 C15 C11 C14 C12 C19 C20 C03 C02 C04 C10 C09 C17 C08 C06 C05 C01)
for id in "${ids[@]}"; do
  s=$(date +%s)
  ./check "$id" --tier "$tier" > "/tmp/runall_$id.log" 2>&1; rc=$?
  e=$(date +%s)
  echo "$id tier=$tier rc=$rc wall=$((e-s))s :: $(grep -E '^(VIOLATION|KNOWN-FINDING|VACUOUS|HARNESS|UNUSABLE)' /tmp/runall_$id.log | cut -c1-120 | head -3 | tr '\n' ';') $(tail -1 /tmp/runall_$id.log | cut -c1-200)"
done
