#!/bin/bash
# tools/eval_mutant.sh <name> <patch.diff> <demo.py> <Cxx> [more Cxx ...]
# Applies the patch to a scratch worktree of /repo (never to /repo itself), confirms that the 30
# tests still pass and that the demonstration fails with / passes without the change, then runs
# the named quick checks against the scratch tree.  Everything is written under /tmp/ev_<name>*.
name=$1; patch=$2; demo=$3; shift 3
wt=/tmp/ev_$name; out=/tmp/ev_${name}_out
rm -rf "$out"; mkdir -p "$out"
git -C /repo worktree remove --force "$wt" >/dev/null 2>&1
git -C /repo worktree add -q --detach "$wt" HEAD || exit 2
if ! git -C "$wt" apply "$patch" && ! git -C "$wt" apply -3 "$patch"; then echo "RESULT $name patch-does-not-apply"; git -C /repo worktree remove --force "$wt"; exit 2; fi
( cd "$wt" && /venv/bin/python -m pytest -q -p no:cacheprovider --timeout=900 2>&1 | tail -1 ) > "$out/tests.txt"
tests=$(cat "$out/tests.txt")
/venv/bin/python "$demo" "$wt" > "$out/demo_with.txt" 2>&1; dw=$?
/venv/bin/python "$demo" /repo > "$out/demo_without.txt" 2>&1; dwo=$?
res=""
for pid in "$@"; do
  ( cd /verif && DSW_REPO="$wt" VERIF_OUT="$out" timeout 1500 ./check "$pid" --tier quick > "$out/$pid.log" 2>&1 ); rc=$?
  nv=$(grep -c '^VIOLATION' "$out/$pid.log")
  res="$res $pid:rc=$rc:viol=$nv"
done
echo "RESULT $name tests=[$tests] demo_with=$dw demo_without=$dwo checks:$res"
git -C /repo worktree remove --force "$wt"
