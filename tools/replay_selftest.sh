#!/bin/bash
# tools/replay_selftest.sh <seeded-id> <Cxx>
# Applies seeded/<id>/patch.diff to a scratch worktree, runs the quick check against it, then replays the
# first violation artefact against the patched tree (must reproduce: rc 1) and against /repo (must hold: rc 0).
id=$1; pid=$2
wt=/tmp/rp_$id; out=/tmp/rp_${id}_out; rm -rf "$out"; mkdir -p "$out"
git -C /repo worktree remove --force "$wt" >/dev/null 2>&1
git -C /repo worktree add -q --detach "$wt" HEAD || exit 2
git -C "$wt" apply "$(dirname "$0")/../seeded/$id/patch.diff" || { echo "SELFTEST $id patch-does-not-apply"; git -C /repo worktree remove --force "$wt"; exit 2; }
( cd "$(dirname "$0")/.." && DSW_REPO="$wt" VERIF_OUT="$out" ./check "$pid" --tier quick > "$out/run.log" 2>&1 ); rc=$?
f=$(grep -m1 '^VIOLATION' "$out/run.log" | sed 's/.*replay=//')
if [ -z "$f" ]; then echo "SELFTEST $id $pid check_rc=$rc no-violation-line"; git -C /repo worktree remove --force "$wt"; exit 1; fi
( cd "$(dirname "$0")/.." && DSW_REPO="$wt" ./check "$pid" --replay "$f" > "$out/replay_mut.log" 2>&1 ); r1=$?
( cd "$(dirname "$0")/.." && ./check "$pid" --replay "$f" > "$out/replay_repo.log" 2>&1 ); r2=$?
echo "SELFTEST $id $pid check_rc=$rc replay_on_patched_tree=$r1 replay_on_repo=$r2"
git -C /repo worktree remove --force "$wt"
