#!/usr/bin/env python3
"""Regenerates /verif/MANIFEST.json from the table below (only properties whose check module exists
are claimed; the rest are listed under not_applicable with the reason)."""
import json, os

V = os.path.dirname(os.path.dirname(os.path.abspath(__file__)))
BASE = "cd /repo && /venv/bin/python -m pytest -ra -q -p no:cacheprovider --timeout=900 --continue-on-collection-errors"

META = {
 'C01': ('bounded-exhaustive round trip on the real encode/decode over all reachable-canonical order-1 arc-subset graphs x starts x messages x table layers, plus complete long-message families',
         'every (graph,start) class of the complete order-1 arc-subset lattice, binary embeddings at order 2/3 and deletion-bounded order-2 graphs, all messages up to the stated length, table layers T0-T3 and VT checks; beyond the message bound the enumerated long families (7 patterns x 10-12 lengths, leading-zero sweep, values next to c*10^e) on 22 fixed graphs incl. all-out-degree-3 and mixed ones',
         'reference coder and well-formedness predicate in mc/oracle.py; canonicalisation by reachable part is cross-checked by a differential run with garbage in unreachable rows; one array object is rewritten in place for all graphs of a shape'),
 'C02': ('reachable-state invariant (BFS over the generated graph) + bounded-exhaustive encode from every retained start',
         'the window invariant is checked on every reachable vertex and arc of every generated graph, which covers strands of every length; the coder is bound to the graph by exhaustive short messages in both modes and three table layers',
         'filters come from an enumerated menu, plus all 2^16 table filters at order 2 restricted to a structured family; independent window predicate with exact rationals'),
 'C03': ('exhaustive enumeration of all 65,536 order-2 vertex masks x thresholds 1..4 x dtype against a greatest-fixed-point reference; lattice-edge monotonicity',
         'complete input space at order 2 and 1, binary embeddings and deletion-bounded masks at orders 3-4, experiment filters at orders 4-8',
         'gfp reference is validated against subset brute force on small masks'),
 'C04': ('explicit-state search: every generated graph x every retained start x all short messages under a loop budget; cycle search among out-degree-1 vertices for all message lengths',
         'termination for every message length reduces to acyclicity of the out-degree-1 subgraph, decided by search on every generated graph; tightness is checked against the reference trace',
         'generated graphs at order <= 2 exhaustively, larger orders through the filter menu'),
 'C05': ('state-graph exploration of the coder (vertex, quotient) with the real encoder as transition function against an integer reference coder; exhaustive walks for decode',
         'character-for-character agreement with an independent mixed-radix reference, which detects changes applied consistently to both directions',
         'same universes as C01'),
 'C06': ('transition coverage of the walk automaton of every order-1 arc-subset graph on the real decoder (9 symbols incl. foreign and whitespace) + brute-force strings + all single edits of short walks + long strands on order 3-5 graphs',
         'every (vertex, symbol) transition including rejection and dead vertices on every graph class; bit lengths incl. 0 and the tight fast-mode width; checks of length 2, 33, 40; both modes, with and without a table; exception type checked',
         'acceptance assumed to depend on (vertex, next symbol) only; cross-checked by brute force on small classes'),
 'C07': ('exhaustive strands up to length 8 x check lengths against the VT definition; long strands straddling ascent sums of 2^16/2^31/2^32 x check lengths to 40; finite-state VT automaton explored completely with every transition replayed on set_vt',
         'the automaton argument covers strands of any length for check lengths <= 3; all single substitutions and C/G/T indels enumerated',
         'reference vt cross-checked against a second formulation'),
 'C08': ('bounded-exhaustive fault enumeration: all single edits (and spaced double edits) of deviation-bounded and rule-generated long walks on generated graphs of order 1-5, repaired by the real repair_dna',
         'every interior position, edit kind and replacement nucleotide per walk; order-2 generated graphs taken per (vertex count, threshold) stratum',
         'nothing is claimed beyond the listed graphs; loop budgets guard termination'),
 'C09': ('bounded-exhaustive: every walk and every string up to length n on small graph universes x options, long clean walks (also on rule-built graphs of order 8-9), double edits and many-error strands with checks',
         'clean strands returned untouched; candidates sorted, duplicate-free and check-consistent on both return paths, for heap limits 0-1000',
         'orders 1-5'),
 'C10': ('bounded-exhaustive termination check under deterministic loop budgets: all ACGT strings up to length n x graphs x every start x options, plus complete families of long strands with m = 0..130 isolated errors (many-candidate and single-candidate sites)',
         'a budget hit is a non-termination verdict with the exact input; the long families drive the bounded candidate product',
         'budget is a fixed polynomial with >= 10x slack over the observed maximum'),
 'C11': ('exhaustive: all 2^16 order-2 masks for the valid graph; filter menu x k for vertex discovery incl. user-defined filters',
         'mask[i] <=> filter verdict on the i-th k-mer, arcs exactly between marked shift-neighbours',
         'filters from an enumerated menu'),
 'C12': ('exhaustive strings up to length 6 (8) x configuration grid against an exact-rational reference predicate; wide and huge windows; long strings up to 1100 nt; same-instance histories',
         'all strings over ACGT (+ foreign characters) for every configuration of the grid; 28 decimals on windows up to 12; windows of 100-256 nucleotides; one instance judged on growing strands',
         'GC bounds are read as the decimals written'),
 'C13': ('exhaustive enumeration of every vertex of every order 1..8 (9) against string slicing; whole-array check of the complete accessor at orders 9-10 (11)',
         'all 87,380 vertices of orders 1-8 plus complete boundary families at orders 10-12; every built/converted graph of a mask family checked entry by entry, incl. permuted successor lists, int8/bool matrices and stray-arc matrices',
         'orders above 9 only through the boundary family and the complete accessor'),
 'C14': ('exhaustive: all 65,536 order-1 arc subsets and binary-embedding arc subsets at order 2/3, an order 4-5 family; all illegal single-arc matrices on every row pattern and inside complete matrices',
         'round trips are identities on arbitrary (not only vertex-induced) arc subsets; leaf multisets equal reference walks at depths beyond the order; arguments unchanged',
         'order <= 3 exhaustively, 4-5 through a family'),
 'C15': ('exhaustive decimal strings up to 5 (6) digits x operands 0..9 + complete long-chain families (a.d^m.b for every digit d, p.0^m, p.9^m, periodic patterns, numbers of 4299-9000 digits); carry transducer explored completely with transition coverage',
         'digit-serial transducer argument lets short strings speak for long ones; the long families pin block boundaries of any size',
         'that the implementation is a finite-state transducer is supported by coverage evidence, not proved'),
 'C16': ('exhaustive bit arrays up to length 14 (16) and DNA strings up to length 7 (8), long family to 1024 (4096) bits, leading-zero sweeps, multiples of powers of ten, a 4312-digit decimal string',
         'round trips, str path == int path, padding',
         'integer path exercised with Python ints as documented'),
 'C17': ('exhaustive graphs (all order-1 arc subsets, order-2 vertex-induced, an order 3-5 family) x repeats x finite seed menu, plus all single-start call histories of 2-3 equal-sized sub-alphabet graphs at orders 3-4, against a certified Collatz-Wielandt enclosure',
         'a continuum of initial vectors cannot be enumerated; the owned environment answer is the seeded numpy RNG',
         'precondition decided by own SCC/period and a conservative spectral-gap margin'),
 'C18': ('exhaustive: k=1..6 x seed menu; all call histories of 2-3 calls over k x seed (each in its own forked process, compared with the call made alone); all 24 rows x 15 live patterns x all digits on the real encode/decode; multi-step walks under constant-row tables',
         'the induced digit map is decided completely; reproducibility across interleaved seeds, after the caller overwrote a result',
         'seeds from a finite menu'),
 'C19': ('reachable-state search (state hashing on accessor bytes) over arc-removal call sequences on generated graphs of order 2-3 and depth-bounded sequences at order 4; the invariant - one existing arc removed, maximum of an independent reference score, both views equal - is evaluated on every transition',
         'pure flag sequences to the first raising call and mixed sequences with <= 2 changes of (flag combination, successor-list order); the library score function is additionally compared with the reference on every pre-state',
         'orders 2-3; mixed sequences capped per graph (cap reported); reference score re-implements the pinned scoring formula and agreed with it on every explored state'),
 'C20': ('explicit-state search over call histories on shared arguments: depth 1-2 exhaustive over 54 operations, depth 3 over core operations, plus histories with a caller-overwritten result, an in-place arc removal (and its undoing) and a second argument set of the same order in between; every call compared with a fresh-process reference',
         'result-based: after every call the result equals that of the same operation alone in a fresh process on equal arguments and every argument is bit-for-bit unchanged; verbose on/off compared',
         '8 argument sets of order 1-4; a change of module state alone is recorded, not reported (a correct memo keeps the statement true)'),
}

NOT_BUILT = 'check not built yet in this session (design in DESIGN.md); will be claimed once mc/props/%s.py exists'


def main():
    checks, na = [], []
    for i in range(1, 21):
        pid = 'C%02d' % i
        if os.path.exists(os.path.join(V, 'mc', 'props', pid + '.py')):
            tech, text, note = META[pid]
            checks.append({
                'property_id': pid,
                'quick_cmd': './check %s --tier quick' % pid,
                'thorough_cmd': './check %s --tier thorough' % pid,
                'evidence_file': '/verif/evidence/%s.json' % pid,
                'replay_cmd_template': './check %s --replay {path}' % pid,
                'engine': 'mc',
                'level_claimed': {'category': 'model_checking', 'text': text, 'design_ref': 'DESIGN.md section 5, ' + pid},
                'level_note': note,
                'technique': 'model checking: ' + tech,
            })
        else:
            na.append({'property_id': pid, 'reason': NOT_BUILT % pid})
    man = {
        'version': 1,
        'setup_cmd': './setup.sh',
        'hooks': {'guard': 'DSW_VERIF', 'enable': 'no source hooks: observation is external (sys.monitoring loop budgets, argument snapshots, stdout capture); the launcher exports DSW_VERIF=1 but no line of /repo reads it',
                  'baseline_off_cmd': BASE, 'source_commits': [], 'add_only': True},
        'engines': [{'name': 'mc', 'path': '/verif/mc', 'serves_properties': [c['property_id'] for c in checks],
                     'kind_free_text': 'hand-written bounded-exhaustive / explicit-state explorer in Python running the real dsw functions against plain-Python reference models'}],
        'checks': checks,
        'notes': 'All checks import dsw from /repo\'s working tree in a fresh interpreter (pure Python, nothing to build). Fixes to genuine defects are listed in known_findings.json as fixed entries.',
        'not_applicable': na,
    }
    with open(os.path.join(V, 'MANIFEST.json'), 'w') as fh:
        json.dump(man, fh, indent=1)
    print('claimed', [c['property_id'] for c in checks])


if __name__ == '__main__':
    main()
