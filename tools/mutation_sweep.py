#!/usr/bin/env python3
"""Systematic first-order mutation sweep (development tool, not a registered check).

  mutation_sweep.py gen   <outdir>                 generate mutants of the dsw core functions
  mutation_sweep.py tests <outdir> [jobs]          run the repository's test suite on each mutant (survivors = 30 passed)
  mutation_sweep.py check <outdir> [jobs] [nproc]  run the mapped quick checks against each survivor

Every mutant lives in <outdir>/m<i>/ (a copy of /repo's dsw + tests with one changed line); nothing
in /repo is touched.  Results are appended to <outdir>/results.jsonl."""
import sys, os, re, json, shutil, subprocess, ast
from concurrent.futures import ThreadPoolExecutor

REPO = '/repo'
VERIF = os.path.dirname(os.path.dirname(os.path.abspath(__file__)))

# function -> checks that own its behaviour
MAP = {
    'encode': ['C01', 'C05', 'C04'], 'decode': ['C01', 'C06', 'C05'], 'set_vt': ['C07', 'C01'],
    'repair_dna': ['C08', 'C09', 'C10'], 'path_matching': ['C08', 'C09'],
    'find_vertices': ['C11'], 'connect_valid_graph': ['C11', 'C13'], 'connect_coding_graph': ['C03', 'C04'],
    'remove_nasty_arc': ['C19'], 'create_random_shuffles': ['C18'],
    'get_complete_accessor': ['C13'], 'accessor_to_adjacency_matrix': ['C14'], 'adjacency_matrix_to_accessor': ['C14'],
    'accessor_to_latter_map': ['C14'], 'latter_map_to_accessor': ['C14', 'C03'], 'remove_useless': ['C03'],
    'obtain_formers': ['C13'], 'obtain_latters': ['C13'], 'obtain_vertices': ['C14'], 'obtain_leaf_vertices': ['C14', 'C19'],
    'approximate_capacity': ['C17'], 'calculate_intersection_score': ['C19'],
    'calculus_addition': ['C15'], 'calculus_subtraction': ['C15'], 'calculus_multiplication': ['C15'], 'calculus_division': ['C15'],
    'bit_to_number': ['C16'], 'number_to_bit': ['C16'], 'dna_to_number': ['C16', 'C13'], 'number_to_dna': ['C16', 'C13'],
    'valid': ['C12'], '__init__': ['C12', 'C02'],
}
RULES = [
    (r'>=', '>'), (r'<=', '<'), (r'(?<![<>=!])>(?!=)', '>='), (r'(?<![<>=!])<(?!=)', '<='), (r'==', '!='), (r'!=', '=='),
    (r'\+ 1\b', '+ 0'), (r'\+ 1\b', '+ 2'), (r'- 1\b', '- 0'), (r'- 1\b', '- 2'), (r'\* 2\b', '* 1'), (r'\b1 \+', '0 +'),
    (r'\[1:\]', '[0:]'), (r'\[: ?-1\]', '[:]'), (r'\band\b', 'or'), (r'\bor\b', 'and'), (r'\bnot ', ''),
    (r'% 4\b', '% 3'), (r'// 2\b', '// 1'), (r'\b0\]', '1]'), (r'\[-1\]', '[0]'), (r'\[0\]', '[-1]'),
    (r'\+=', '-='), (r'\bTrue\b', 'False'), (r'\bFalse\b', 'True'), (r'range\(len\((\w+)\)\)', r'range(len(\1) - 1)'),
]


def functions(path):
    src = open(path).read()
    tree = ast.parse(src)
    out = []
    for node in ast.walk(tree):
        if isinstance(node, ast.FunctionDef) and node.name in MAP:
            doc_end = node.lineno
            if node.body and isinstance(node.body[0], ast.Expr) and isinstance(getattr(node.body[0], 'value', None), ast.Constant) \
                    and isinstance(node.body[0].value.value, str):
                doc_end = node.body[0].end_lineno
            out.append((node.name, doc_end + 1, node.end_lineno))
    return src.split('\n'), out


def gen(outdir):
    os.makedirs(outdir, exist_ok=True)
    muts = []
    for fn in ('spiderweb.py', 'graphized.py', 'operation.py', 'biofilter.py'):
        path = os.path.join(REPO, 'dsw', fn)
        lines, funcs = functions(path)
        for name, lo, hi in funcs:
            verbose_depth = None
            for ln in range(lo, hi + 1):
                text = lines[ln - 1]
                stripped = text.strip()
                indent = len(text) - len(text.lstrip())
                if verbose_depth is not None and stripped and indent <= verbose_depth:
                    verbose_depth = None
                if stripped.startswith('if verbose'):
                    verbose_depth = indent
                    continue
                if verbose_depth is not None or not stripped or stripped.startswith('#') or stripped.startswith('raise') \
                        or 'monitor(' in stripped or stripped.startswith('print('):
                    continue
                code = text.split('  #')[0]
                for ri, (pat, rep) in enumerate(RULES):
                    for mi, m in enumerate(re.finditer(pat, code)):
                        if mi > 0:
                            break          # first occurrence per rule per line
                        new = code[:m.start()] + m.expand(rep) + code[m.end():] + text[len(code):]
                        if new != text:
                            muts.append({'file': fn, 'function': name, 'line': ln, 'rule': ri, 'old': text.strip(), 'new': new.strip(), 'newline': new})
    # at most 14 mutants per function, spread over its lines
    by = {}
    for m in muts:
        by.setdefault((m['file'], m['function']), []).append(m)
    chosen = []
    for key in sorted(by):
        ms = by[key]
        step = max(1, len(ms) // 14)
        chosen += ms[::step][:14]
    for i, m in enumerate(chosen):
        d = os.path.join(outdir, 'm%03d' % i)
        if os.path.exists(d):
            shutil.rmtree(d)
        os.makedirs(d)
        shutil.copytree(os.path.join(REPO, 'dsw'), os.path.join(d, 'dsw'), ignore=shutil.ignore_patterns('__pycache__'))
        shutil.copytree(os.path.join(REPO, 'tests'), os.path.join(d, 'tests'), ignore=shutil.ignore_patterns('__pycache__'))
        p = os.path.join(d, 'dsw', m['file'])
        L = open(p).read().split('\n')
        L[m['line'] - 1] = m['newline']
        open(p, 'w').write('\n'.join(L))
        m['id'] = 'm%03d' % i
        json.dump(m, open(os.path.join(d, 'mutant.json'), 'w'))
    print('generated', len(chosen), 'of', len(muts), 'candidate mutants')


def run_tests(d):
    env = dict(os.environ, PYTHONDONTWRITEBYTECODE='1')
    try:
        p = subprocess.run(['/venv/bin/python', '-m', 'pytest', '-q', '-x', '-p', 'no:cacheprovider', '--timeout=300'], cwd=d, env=env,
                           capture_output=True, text=True, timeout=1500)
        tail = p.stdout.strip().split('\n')[-1]
    except subprocess.TimeoutExpired:
        tail = 'timeout'
    m = json.load(open(os.path.join(d, 'mutant.json')))
    m['tests'] = tail
    m['survives_tests'] = tail.startswith('30 passed')
    json.dump(m, open(os.path.join(d, 'mutant.json'), 'w'))
    return m


def run_checks(args):
    d, nproc = args
    m = json.load(open(os.path.join(d, 'mutant.json')))
    res = {}
    for pid in MAP[m['function']]:
        out = os.path.join(d, 'out')
        env = dict(os.environ, DSW_REPO=d, VERIF_OUT=out, VERIF_NPROC=str(nproc), VERIF_DEADLINE_S='900')
        try:
            p = subprocess.run(['./check', pid, '--tier', 'quick'], cwd=VERIF, env=env, capture_output=True, text=True, timeout=2400)
            res[pid] = {'rc': p.returncode, 'violations': p.stdout.count('VIOLATION property=')}
        except subprocess.TimeoutExpired:
            res[pid] = {'rc': 124, 'violations': 0}
        if res[pid]['rc'] == 1:
            break                      # detected: no need to run the other checks
    m['checks'] = res
    m['detected'] = any(v['rc'] == 1 for v in res.values())
    json.dump(m, open(os.path.join(d, 'mutant.json'), 'w'))
    shutil.rmtree(os.path.join(d, 'out'), ignore_errors=True)
    return m


def main():
    cmd, outdir = sys.argv[1], sys.argv[2]
    if cmd == 'gen':
        gen(outdir)
        return
    dirs = sorted(os.path.join(outdir, x) for x in os.listdir(outdir) if x.startswith('m') and os.path.isdir(os.path.join(outdir, x)))
    jobs = int(sys.argv[3]) if len(sys.argv) > 3 else 6
    if cmd == 'tests':
        with ThreadPoolExecutor(jobs) as ex:
            for m in ex.map(run_tests, dirs):
                print(m['id'], m['function'], m['survives_tests'], m['tests'][:40], flush=True)
    elif cmd == 'check':
        nproc = int(sys.argv[4]) if len(sys.argv) > 4 else 4
        todo = []
        for d in dirs:
            m = json.load(open(os.path.join(d, 'mutant.json')))
            if m.get('survives_tests') and 'detected' not in m:
                todo.append((d, nproc))
        with ThreadPoolExecutor(jobs) as ex:
            for m in ex.map(run_checks, todo):
                print(m['id'], m['function'], 'DETECTED' if m['detected'] else 'undetected', m['checks'], '|', m['old'], '=>', m['new'], flush=True)


if __name__ == '__main__':
    main()
