#!/usr/bin/env python3
"""Collect confirmed seeded changes from /tmp/mut (written by independent sub-agents) into
/verif/seeded/<id>/ {patch.diff, demo.py, meta.json} using the RESULT lines of tools/eval_mutant.sh,
and print the detection table for DESIGN.md."""
import json, os, re, shutil, sys

V = os.path.dirname(os.path.dirname(os.path.abspath(__file__)))
SRC = '/tmp/mut'


def main():
    res = {}
    for ln in open(os.path.join(SRC, 'RESULTS.txt')):
        m = re.match(r'RESULT (\S+) tests=\[(.*?)\] demo_with=(\d+) demo_without=(\d+) checks:(.*)', ln.strip())
        if not m:
            continue
        name, tests, dw, dwo, checks = m.groups()
        cur = res.setdefault(name, {'tests': tests, 'demo_with': int(dw), 'demo_without': int(dwo), 'checks': {}})
        cur['tests'], cur['demo_with'], cur['demo_without'] = tests, int(dw), int(dwo)
        for c in checks.split():
            pid, rc, nv = c.split(':')
            cur['checks'][pid] = {'rc': int(rc.split('=')[1]), 'violation_lines': int(nv.split('=')[1])}
    rows = []
    for name in sorted(res):
        r = res[name]
        ok = r['tests'].startswith('30 passed') and r['demo_with'] != 0 and r['demo_without'] == 0
        if not ok:
            print('NOT KEPT', name, r, file=sys.stderr)
            continue
        d = os.path.join(V, 'seeded', name)
        os.makedirs(d, exist_ok=True)
        shutil.copy(os.path.join(SRC, name + '.diff'), os.path.join(d, 'patch.diff'))
        shutil.copy(os.path.join(SRC, name + '_demo.py'), os.path.join(d, 'demo.py'))
        meta = {}
        mp = os.path.join(SRC, name + '_meta.json')
        if os.path.exists(mp):
            try:
                meta = json.load(open(mp))
            except Exception:
                meta = {'what': open(mp).read()[:2000]}
        prev = {}
        if os.path.exists(os.path.join(d, 'meta.json')):
            try:
                prev = json.load(open(os.path.join(d, 'meta.json'))).get('ran', {}).get('quick_checks', {})
            except Exception:
                prev = {}
        prev.update(r['checks'])
        detected = sorted(p for p, c in prev.items() if c['rc'] == 1 and c['violation_lines'] > 0)
        missed = sorted(p for p, c in prev.items() if not (c['rc'] == 1 and c['violation_lines'] > 0))
        out = {
            'id': name, 'breaks_property': meta.get('property', name.split('_')[0]),
            'what': meta.get('what', ''), 'needs_to_manifest': meta.get('needs', ''), 'files': meta.get('files', []),
            'origin': 'written by an independent sub-agent that saw only the property text and a scratch worktree of /repo',
            'ran': {
                'how': 'tools/eval_mutant.sh: patch applied to a scratch worktree of /repo (never to /repo), full test suite, '
                       'demo on the patched worktree and on /repo, then ./check <id> --tier quick with DSW_REPO pointing at the worktree',
                'test_suite_with_change': r['tests'], 'demo_exit_with_change': r['demo_with'],
                'demo_exit_without_change': r['demo_without'], 'quick_checks': prev,
            },
            'detected_by': detected, 'not_detected_by': missed,
        }
        json.dump(out, open(os.path.join(d, 'meta.json'), 'w'), indent=1)
        rows.append((name, out['breaks_property'], (out['needs_to_manifest'] or '')[:150].replace('\n', ' ').replace('|', '/'),
                     ', '.join(detected) or '-', ', '.join(missed) or ''))
    print('| seeded change | property | needs | reported by (quick tier) | ran but silent |')
    print('|---|---|---|---|---|')
    for row in rows:
        print('| %s | %s | %s | %s | %s |' % row)


if __name__ == '__main__':
    main()
