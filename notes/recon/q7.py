from common import *
install()
import faulthandler; faulthandler.dump_traceback_later(500,exit=True)
# k=1 C08
v,a=connect_coding_graph(1,np.array([1,1,1,0]),2)
w="ACGACGGCAAC"
cnt=collections.Counter()
for pos in range(1,len(w)-2):
    x=w[:pos]+"T"+w[pos+1:]
    r=run(repair_dna,x,a,0,1,has_indel=True,heap_size=1e9,lim=5000)
    if r[0]=='ok':
        res,info=r[1]
        cnt['det=%d %s'%(info[0],'rec' if w in res else 'MISS')]+=1
    else: cnt[r[0]]+=1
print('k1',cnt)
# C02
from fractions import Fraction
def rc(s): return s[::-1].translate(str.maketrans("ACGT","TGCA"))
cnt=collections.Counter(); ex=[]
msgs=[np.array(p,dtype=int) for L in range(0,7) for p in itertools.product([0,1],repeat=L)]
t0=time.time()
for k in (2,3,4):
    for run_ in (None,1,2,3):
        if run_ is not None and run_>=k: continue
        for gc in (None,[0.5,0.5],[0.25,0.75],[0.4,0.6],[0.8,1.0]):
            for motifs in (None,["AC"],["GC"],["GAT"]):
                if motifs and len(motifs[0])>k: continue
                f=LocalBioFilter(observed_length=k,max_homopolymer_runs=run_,gc_range=gc,undesired_motifs=motifs)
                try: vs=find_vertices(k,f)
                except ValueError: cnt['novert']+=1; continue
                for t in (2,3):
                    try: vv,a=connect_coding_graph(k,vs,t)
                    except ValueError: cnt['nograph']+=1; continue
                    cnt['graphs']+=1
                    verts=[int(x) for x in obtain_vertices(a)]
                    for u in verts:
                        if not f.valid(number_to_dna(u,k)): cnt['BAD vertex invalid']+=1
                    for st in verts[:6]:
                        pre=number_to_dna(st,k)
                        for m in msgs[::3]:
                            for fast in (False,True):
                                if fast and any((a[u]>=0).sum()==3 for u in verts): continue
                                if fast and len(m)%2: continue
                                try: s=encode(m,a,st,is_faster=fast)
                                except IndexError: cnt["fast IndexError"]+=1; continue
                                cnt['strands']+=1
                                if not f.valid(pre+s,only_last=False): cnt['BAD prefixed']+=1; ex.append((k,run_,gc,motifs,t,st,m.tolist(),s,'pre'))
                                if not f.valid(s,only_last=False): cnt['BAD alone']+=1; ex.append((k,run_,gc,motifs,t,st,m.tolist(),s,'alone'))
print(cnt,time.time()-t0); print(ex[:10])
