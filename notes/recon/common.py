import sys, os, time, itertools, collections, random, math, io, contextlib
sys.path.insert(0,os.environ.get('DSWROOT','/repo'))
import numpy as np
import dsw
from dsw import *
import dsw.spiderweb as sw, dsw.graphized as gz, dsw.operation as op, dsw.biofilter as bf
NUC="ACGT"
class Budget(BaseException): pass
_state={'n':0,'lim':10**9,'max':0}
def _cb(code,src,dst):
    if dst<src:
        _state['n']+=1
        if _state['n']>_state['lim']:
            raise Budget()
def install():
    mon=sys.monitoring; T=mon.DEBUGGER_ID
    mon.use_tool_id(T,'verif')
    mon.register_callback(T,mon.events.JUMP,_cb); mon.register_callback(T,mon.events.BRANCH,_cb)
    import types
    seen=set()
    def walk(co):
        if co in seen: return
        seen.add(co); mon.set_local_events(T,co,mon.events.JUMP|mon.events.BRANCH)
        for c in co.co_consts:
            if isinstance(c,types.CodeType): walk(c)
    for m in (sw,gz,op,bf):
        for name,obj in vars(m).items():
            if isinstance(obj,types.FunctionType) and obj.__module__==m.__name__: walk(obj.__code__)
            if isinstance(obj,type) and obj.__module__==m.__name__:
                for a,b in vars(obj).items():
                    if isinstance(b,types.FunctionType): walk(b.__code__)
    return len(seen)
def run(f,*a,lim=10**6,**k):
    _state['n']=0; _state['lim']=lim
    try:
        r=f(*a,**k); return ('ok',r,_state['n'])
    except Budget: return ('budget',None,_state['n'])
    except Exception as e: return ('exc',type(e).__name__+': '+str(e)[:70],_state['n'])
    finally: _state['lim']=10**12
def is_walk(a,s,st):
    v=st
    for c in s:
        j=NUC.find(c)
        if j<0 or a[v][j]<0: return False
        v=a[v][j]
    return True
def k1graph(code): return np.array([[ (j if code>>(4*u+j)&1 else -1) for j in range(4)] for u in range(4)])
def vt(s,n):
    vals=[NUC.index(c) for c in s]
    flag=sum(vals)%4; asc=sum(i for i in range(len(vals)-1) if vals[i]<vals[i+1])%(4**(n-1))
    out=""
    for _ in range(n-1): out=NUC[asc%4]+out; asc//=4
    return NUC[flag]+out
