from common import *
install()
import faulthandler; faulthandler.dump_traceback_later(800,exit=True)
cnt=collections.Counter(); ex=[]; maxloops=collections.Counter()
def check(a,k,st,s,has_indel,chk,tag):
    r=run(repair_dna,s,a,st,k,vt_check=chk,has_indel=has_indel,heap_size=1e3,lim=40*(len(s)+1)*(k+1)+40)
    key=(tag,len(s))
    if r[0]=='budget': cnt[tag+' BUDGET']+=1; 
    elif r[0]=='exc': cnt[tag+' EXC '+r[1][:40]]+=1
    else:
        maxloops[key]=max(maxloops[key],r[2])
        res,info=r[1]
        if not(isinstance(res,list) and all(isinstance(x,str) for x in res) and isinstance(info,tuple) and len(info)==4): cnt[tag+' illformed']+=1
        if res!=sorted(set(res)): cnt[tag+' unsorted/dup']+=1
        if chk is not None and any(vt(c,len(chk))!=chk for c in res): cnt[tag+' vt-inconsistent']+=1
        if is_walk(a,s,st):
            exp=[s] if (chk is None or vt(s,len(chk))==chk) else []
            if res!=exp or info[0]!=0: cnt[tag+' clean-changed']+=1; ex.append((tag,a.tolist(),st,s,chk,res,info))
            else: cnt[tag+' clean-ok']+=1
        else: cnt[tag+(' fallback' if info[2]==0 or info[0]==0 else ' product')]+=1
    if r[0]!='ok' and len(ex)<30: ex.append((tag,r[0],r[1],a.tolist(),st,s,has_indel,chk))
# k=1
strings1=["".join(p) for L in range(1,5) for p in itertools.product(NUC,repeat=L)]
for code in range(0,1<<16,4111):
    a=k1graph(code)
    for st in range(4):
        for s in strings1:
            for hi in (False,True):
                check(a,1,st,s,hi,None,'k1')
            check(a,1,st,s,True,vt(s,3),'k1vt')
# k=2 literal + some generated
lit=np.array([[-1, -1, -1, -1], [ 4, -1, -1,  7], [ 8, -1, -1, 11], [-1, -1, -1, -1],[-1,  1,  2, -1], [-1, -1, -1, -1], [-1, -1, -1, -1], [-1, 13, 14, -1],[-1,  1,  2, -1], [-1, -1, -1, -1], [-1, -1, -1, -1], [-1, 13, 14, -1],[-1, -1, -1, -1], [ 4, -1, -1,  7], [ 8, -1, -1, 11], [-1, -1, -1, -1]])
graphs=[lit]
f=LocalBioFilter(observed_length=2,max_homopolymer_runs=1)
graphs.append(connect_coding_graph(2,find_vertices(2,f),2)[1])
strings2=["".join(p) for L in range(2,8) for p in itertools.product(NUC,repeat=L)]
t0=time.time()
for a in graphs:
    for st in (1,4,0,5):
        for s in strings2:
            check(a,2,st,s,True,None,'k2')
            if len(s)<=5: check(a,2,st,s,True,vt(s[:-1]+'A',3),'k2vt')
print(time.time()-t0)
for k,v in sorted(cnt.items()): print(k,v)
print(sorted(maxloops.items()))
for e in ex[:10]: print(e)
