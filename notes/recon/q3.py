from common import *
from multiprocessing import Pool
def sccs(n,adj):
    idx=[None]*n; low=[0]*n; on=[False]*n; st=[]; out=[]; c=[0]
    def sc(v):
        idx[v]=low[v]=c[0]; c[0]+=1; st.append(v); on[v]=True
        for w in adj[v]:
            if idx[w] is None: sc(w); low[v]=min(low[v],low[w])
            elif on[w]: low[v]=min(low[v],idx[w])
        if low[v]==idx[v]:
            comp=[]
            while True:
                w=st.pop(); on[w]=False; comp.append(w)
                if w==v: break
            out.append(comp)
    for v in range(n):
        if idx[v] is None: sc(v)
    return out
def period(comp,adj):
    cs=set(comp); lvl={comp[0]:0}; q=[comp[0]]; g=0
    while q:
        u=q.pop()
        for w in adj[u]:
            if w in cs:
                if w not in lvl: lvl[w]=lvl[u]+1; q.append(w)
                else: g=math.gcd(g,lvl[u]+1-lvl[w])
    return g
def cw(B):
    n=len(B); x=np.ones(n); C=B+np.eye(n)
    for it in range(5000):
        y=C@x; r=y/x; lo,hi=r.min(),r.max(); x=y/y.max()
        if hi-lo<1e-13: return lo-1,hi-1,it
    return lo-1,hi-1,it
def work(code):
    a=k1graph(code); n=4
    adj=[[int(a[u][j]) for j in range(4) if a[u][j]>=0] for u in range(n)]
    comps=[c for c in sccs(n,adj) if len(c)>1 or c[0] in adj[c[0]]]
    out={}
    cap_any=approximate_capacity(a)
    out['gt2']=cap_any>2+1e-9
    live=[u for u in range(n) if adj[u]]
    degs={len(adj[u]) for u in live}
    if live and len(degs)==1 and all(w in live for u in live for w in adj[u]):
        d=degs.pop(); out['regular']=abs(cap_any-math.log2(d))
    if len(comps)!=1: return code,out
    c=sorted(comps[0])
    if period(c,adj)!=1: return code,out
    B=np.zeros((len(c),len(c)))
    for i,u in enumerate(c):
        for w in adj[u]:
            if w in c: B[i,c.index(w)]+=1
    mods=sorted(abs(np.linalg.eigvals(B)),reverse=True)
    ratio=mods[1]/mods[0] if len(mods)>1 else 0
    if ratio>0.8: return code,out
    lo,hi,it=cw(B); true=math.log2((lo+hi)/2)
    res={}
    for rep in (2,3,10):
        for seed in (0,1,2):
            np.random.seed(seed*1000+rep)
            res[(rep,seed)]=abs(approximate_capacity(a,repeats=rep)-true)
    out['rand']=max(res.values()); out['single']=abs(cap_any-true); out['ratio']=ratio
    # grid shim
    class Shim:
        def __init__(s,vecs): s.v=list(vecs); s.i=0
        def random(s,size=None):
            v=s.v[s.i%len(s.v)]; s.i+=1; return np.array(v,dtype=float)
    grid=[(0.5,0.5,0.5,0.5),(0.1,0.1,0.1,0.1),(0.9,0.5,0.1,0.5)]
    worst=0; 
    old=gz.random
    for g in grid[::1]:
        sh=Shim([g]); gz.random=sh
        try: worst=max(worst,abs(approximate_capacity(a,repeats=2)-true))
        finally: gz.random=old
    out['grid']=worst
    return code,out
if __name__=='__main__':
    step=int(sys.argv[1])
    t0=time.time()
    with Pool(16) as p: rs=p.map(work,range(1,1<<16,step),chunksize=64)
    cnt=collections.Counter(); ex=[]
    for code,o in rs:
        if o.get('gt2'): cnt['gt2']+=1
        if 'regular' in o:
            cnt['regular']+=1
            if o['regular']>1e-12: cnt['regular-bad']+=1; ex.append(('reg',code,o['regular']))
        if 'rand' in o:
            cnt['pre']+=1
            if o['rand']>1e-4: cnt['rand-bad']+=1; ex.append(('rand',code,o))
            if o['grid']>1e-4: cnt['grid-bad']+=1; ex.append(('grid',code,o))
            if o['single']>1e-4: cnt['single-bad']+=1
    print(cnt,time.time()-t0); print(ex[:10])
