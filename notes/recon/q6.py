from common import *
install()
import faulthandler; faulthandler.dump_traceback_later(1000,exit=True)
from multiprocessing import Pool
def edits(w,pos):
    out=[]
    for c in NUC:
        if c!=w[pos]: out.append(('S',pos,c,w[:pos]+c+w[pos+1:]))
        out.append(('I',pos,c,w[:pos]+c+w[pos:]))
    out.append(('D',pos,w[pos],w[:pos]+w[pos+1:]))
    return out
def apply2(w,e1,e2):
    # apply e2 (higher pos) first
    (k1,p1,c1,_),(k2,p2,c2,_)=e1,e2
    x=w
    for (kd,p,c) in sorted([(k1,p1,c1),(k2,p2,c2)],key=lambda t:-t[1]):
        if kd=='S': x=x[:p]+c+x[p+1:]
        elif kd=='I': x=x[:p]+c+x[p:]
        else: x=x[:p]+x[p+1:]
    return x
def walks(a,st,n,maxdev=None):
    out=[]
    def rec(v,s,dev):
        if len(s)==n: out.append(s); return
        live=[j for j in range(4) if a[v][j]>=0]
        for i,j in enumerate(live):
            nd=dev+(1 if i>0 else 0)
            if maxdev is not None and nd>maxdev: continue
            rec(a[v][j],s+NUC[j],nd)
    rec(st,"",0); return out
def work(args):
    k,maskbits,t,mode=args; N=4**k
    mask=np.zeros(N,dtype=bool)
    for b in maskbits: mask[b]=True
    try: v,a=connect_coding_graph(k,mask,t)
    except ValueError: return collections.Counter({'nograph':1}),[]
    vs=[int(x) for x in obtain_vertices(a)]
    cnt=collections.Counter(); ex=[]
    for st in vs[:2]:
        if mode=='single':
            n=4*k+3
            for w in walks(a,st,n,maxdev=2):
                for pos in range(k,n-2*k):
                    for e in edits(w,pos):
                        x=e[3]
                        for hi in ((True,False) if e[0]=='S' else (True,)):
                            for chk in (None,vt(w,4)):
                                r=run(repair_dna,x,a,st,k,vt_check=chk,has_indel=hi,heap_size=1e9,lim=20000)
                                if r[0]!='ok': cnt['BAD '+r[0]+' '+str(r[1])[:30]]+=1; ex.append((a.tolist(),st,w,x)); continue
                                res,info=r[1]; wk=is_walk(a,x,st)
                                if (info[0]==1)!=(not wk): cnt['BAD detect-iff']+=1; ex.append(('det',k,st,w,e[:3],info,wk))
                                if info[0]==1:
                                    if w in res: cnt['recovered']+=1
                                    else: cnt['BAD missed']+=1; ex.append(('miss',k,maskbits,st,w,e[:3],hi,chk,res[:4],info))
                                else: cnt['undetected det=%d'%info[0]]+=1
        else:
            n=7*k+4
            for w in walks(a,st,n,maxdev=1):
                for p1 in range(k,n-2*k):
                    for p2 in range(p1+3*k+2,n-2*k):
                        for e1 in edits(w,p1):
                            for e2 in edits(w,p2):
                                x=apply2(w,e1,e2)
                                r=run(repair_dna,x,a,st,k,has_indel=True,heap_size=1e9,lim=50000)
                                if r[0]!='ok': cnt['BAD '+r[0]]+=1; continue
                                res,info=r[1]
                                if info[0]==2:
                                    if w in res: cnt['recovered2']+=1
                                    else: cnt['BAD missed2']+=1; ex.append(('miss2',k,maskbits,st,w,e1[:3],e2[:3],res[:3],info))
                                else: cnt['det=%d'%info[0]]+=1
    return cnt,ex[:3]
if __name__=='__main__':
    random.seed(2)
    jobs=[]
    for k in (1,2,3):
        N=4**k
        for i in range(4 if k>1 else 3):
            bits=[b for b in range(N) if random.random()<(0.75 if k>1 else 1.0)]
            for t in (2,3): jobs.append((k,bits,t,sys.argv[1]))
    t0=time.time()
    with Pool(16) as p: rs=p.map(work,jobs,chunksize=1)
    tot=collections.Counter(); exs=[]
    for c,e in rs: tot+=c; exs+=e
    print(tot,time.time()-t0)
    for e in exs[:10]: print(e)
