from common import *
install()
import faulthandler; faulthandler.dump_traceback_later(1000,exit=True)
from multiprocessing import Pool
def succ(v,N): return [(v*4+j)%N for j in range(4)]
def gfp(mask,N,t):
    S=set(i for i in range(N) if mask[i])
    while True:
        S2={v for v in S if sum(1 for w in succ(v,N) if w in S)>=t}
        if S2==S: return S
        S=S2
# C03 at k=3, t>=2: masks with <=2 removed vertices + binary-embedded masks
def work(args):
    k,bits,t=args; N=4**k
    mask=np.zeros(N,dtype=bool); 
    for b in bits: mask[b]=True
    S=gfp(mask,N,t)
    r=run(connect_coding_graph,k,mask.copy(),t,lim=10**6)
    if r[0]=='exc':
        return 'ok-VE' if (r[1].startswith('ValueError') and not S) else 'BAD '+r[1][:40]
    if r[0]=='budget': return 'BAD budget'
    v,a=r[1]
    got=set(int(x) for x in obtain_vertices(a))
    if got!=S: return 'BAD mismatch'
    for u in range(N):
        for j in range(4):
            exp=succ(u,N)[j] if (u in S and succ(u,N)[j] in S) else -1
            if a[u][j]!=exp: return 'BAD arcs'
    return 'ok'
if __name__=='__main__':
    jobs=[]
    k=3;N=64
    full=list(range(N))
    for d in range(0,3):
        for rem in itertools.combinations(range(N),d):
            bits=[x for x in full if x not in rem]
            for t in (2,3,4): jobs.append((k,bits,t))
    # binary embedded masks k=3 alphabet {A,C} and {C,T}
    for alpha in ((0,1),(1,3),(0,3)):
        verts=[]
        for p in itertools.product(alpha,repeat=3):
            verts.append(p[0]*16+p[1]*4+p[2])
        for m in range(1,256):
            bits=[verts[i] for i in range(8) if m>>i&1]
            for t in (2,): jobs.append((k,bits,t))
    t0=time.time()
    with Pool(16) as p: rs=p.map(work,jobs,chunksize=32)
    print(collections.Counter(rs),len(jobs),time.time()-t0)
