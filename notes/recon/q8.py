from common import *
install()
import faulthandler; faulthandler.dump_traceback_later(500,exit=True)
cnt=collections.Counter(); ex=[]
perms=list(itertools.permutations(range(4)))
random.seed(4)
def digits(a,st,s,tab):
    v=st; ds=[]
    for c in s:
        j=NUC.index(c); live=[x for x in range(4) if a[v][x]>=0]
        if len(live)>1:
            order=sorted(live,key=lambda x:(tab[v][x] if tab is not None else x))
            ds.append((len(live),order.index(j)))
        v=a[v][j]
    val=0
    for r,d in reversed(ds): val=val*r+d
    return val
def walks(a,st,n):
    out=[""]; fr=[("",st)]
    for _ in range(n):
        nf=[]
        for s,v in fr:
            for j in range(4):
                if a[v][j]>=0: nf.append((s+NUC[j],a[v][j]))
        fr=nf; out+=[s for s,_ in fr]
    return out
for code in range(1,1<<16,509):
    a=k1graph(code)
    tab=np.array([random.choice(perms) for _ in range(4)])
    for st in range(4):
        for s in walks(a,st,5):
            for tb in (None,tab):
                val=digits(a,st,s,tb)
                w=max(val.bit_length(),0)
                for width in (w,w+2):
                    r=run(decode,s,width,a,st,shuffles=tb)
                    if r[0]!='ok': cnt['BAD '+str(r[1])[:40]]+=1; ex.append((code,st,s,width)); continue
                    exp=[int(b) for b in bin(val)[2:].zfill(width)] if width else []
                    if width and val==0: exp=[0]*width
                    if list(r[1])!=exp: cnt['BAD value']+=1; ex.append((code,st,s,width,list(r[1]),exp))
                    else: cnt['ok']+=1
print('C05 walks',cnt,ex[:4])
# C14 leaf + vertices
cnt=collections.Counter()
for code in range(0,1<<16,97):
    a=k1graph(code); lm=accessor_to_latter_map(a)
    if set(int(x) for x in obtain_vertices(a))!={u for u in range(4) if (a[u]>=0).any()}: cnt['BAD vertices']+=1
    if {int(k):v for k,v in lm.items()}!={u:[int(x) for x in a[u] if x>=0] for u in range(4) if (a[u]>=0).any()}: cnt['BAD lm']+=1
    for u in range(4):
        for d in range(0,4):
            fr=[u]
            for _ in range(d): fr=[int(a[x][j]) for x in fr for j in range(4) if a[x][j]>=0]
            A=sorted(int(x) for x in obtain_leaf_vertices(u,d,accessor=a)); B=sorted(int(x) for x in obtain_leaf_vertices(u,d,latter_map=lm))
            if A!=sorted(fr) or B!=sorted(fr): cnt['BAD leaf']+=1
            else: cnt['ok']+=1
print('C14',cnt)
# C11 table filters
class TF(DefaultBioFilter):
    def __init__(s,ok): super().__init__("t"); s.ok=ok
    def valid(s,dna_sequence=None,**kw): return dna_sequence in s.ok
cnt=collections.Counter()
allk=["".join(p) for p in itertools.product(NUC,repeat=2)]
for m in range(0,1<<16,251):
    ok={allk[i] for i in range(16) if m>>i&1}
    r=run(find_vertices,2,TF(ok))
    if r[0]=='ok':
        if [bool(x) for x in r[1]]!=[allk[i] in ok for i in range(16)] or not ok: cnt['BAD']+=1
        else: cnt['ok']+=1
    elif r[1].startswith('ValueError') and not ok: cnt['ok-VE']+=1
    else: cnt['BAD '+r[1][:30]]+=1
print('C11',cnt)
