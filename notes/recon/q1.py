from common import *
print('code objects',install())
# C06 probe: decode on all strings <=4 over ACGTN on sample of k1 graphs, all starts, with bit_length 8
cnt=collections.Counter(); ex=[]
strings=["".join(p) for L in range(0,5) for p in itertools.product("ACGTN",repeat=L)]
for code in range(0,1<<16,257):
    a=k1graph(code)
    for st in range(4):
        for s in strings:
            w=is_walk(a,s,st)
            r=run(decode,s,8,a,st)
            if r[0]=='ok':
                if not w: cnt['accepted non-walk']+=1; ex.append((code,st,s))
                elif len(r[1])!=8: cnt['bad len']+=1
                else: cnt['ok-accept']+=1
            elif r[0]=='exc':
                if r[1].startswith('ValueError'):
                    if w: cnt['rejected walk']+=1; ex.append((code,st,s,r[1]))
                    else: cnt['ok-reject']+=1
                else: cnt['other exc '+r[1][:30]]+=1; ex.append((code,st,s,r[1]))
            else: cnt['budget']+=1
            # with vt
            for chk in (vt(s.replace('N','A'),3),):
                r=run(decode,s,8,a,st,vt_check=chk)
                exp = w and ('N' not in s)
                if r[0]=='ok' and not exp: cnt['vt accepted bad']+=1
                elif r[0]=='exc' and not r[1].startswith('ValueError'): cnt['vt other exc '+r[1][:40]]+=1
                elif r[0]=='exc' and exp: cnt['vt rejected good']+=1
print(cnt); print(ex[:8])
