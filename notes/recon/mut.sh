#!/bin/bash
# usage: mut.sh name 'python-replace-old' 'new' file probe args...
name=$1; old=$2; new=$3; file=$4; shift 4
rm -rf /tmp/scratch2/m_$name; cp -r /tmp/scratch2/repo /tmp/scratch2/m_$name
/venv/bin/python - "$old" "$new" /tmp/scratch2/m_$name/$file <<'PY'
import sys
old,new,p=sys.argv[1:4]; s=open(p).read()
assert s.count(old)>=1,('not found',old)
open(p,'w').write(s.replace(old,new,1))
PY
cd /tmp/scratch2/m_$name && r=$(timeout 900 /venv/bin/python -m pytest -q -p no:cacheprovider 2>&1 | tail -1)
echo "[$name] tests: $r"
cd /tmp/scratch2 && DSWROOT=/tmp/scratch2/m_$name timeout 900 /venv/bin/python "$@" 2>&1 | tail -3
rm -rf /tmp/scratch2/m_$name
