from common import *
install()
import faulthandler; faulthandler.dump_traceback_later(800,exit=True)
from multiprocessing import Pool
def canon_lm(lm): return tuple(sorted((int(k),tuple(int(x) for x in v)) for k,v in lm.items()))
def work(m):
    N=16; cnt=collections.Counter()
    mask=np.array([(m>>i)&1 for i in range(N)],dtype=bool)
    try: v,acc=connect_coding_graph(2,mask,2)
    except ValueError: return cnt
    for hi in (True,False):
        for hd in (True,False):
            a=acc.copy(); lm=accessor_to_latter_map(a); steps=0
            while True:
                before=a.copy(); lmb={k:list(v) for k,v in lm.items()}
                sc=calculate_intersection_score({k:list(v) for k,v in lm.items()},2,hi,hd)
                r=run(remove_nasty_arc,a,lm,has_insertion=hi,has_deletion=hd,lim=10**6)
                if r[0]!='ok':
                    cnt['end '+str(r[1]).split(':')[0]+' arcs=%d'%int((a>=0).sum())]+=1
                    if not (a==before).all(): cnt['note: accessor changed by raising call']+=1
                    break
                a2,lm2,(f,l),scores=r[1]; steps+=1
                diff=np.argwhere(before!=a2)
                if len(diff)!=1: cnt['BAD diff%d'%len(diff)]+=1; break
                u,j=diff[0]
                if before[u,j]<0: cnt['BAD nonarc']+=1
                if sc[u,j]!=sc.max(): cnt['BAD notmax']+=1
                if (int(u),int(before[u,j]))!=(int(f),int(l)): cnt['BAD report']+=1
                if ((sc>0)&(before<0)).any() or sc.shape!=before.shape: cnt['BAD scores']+=1
                if canon_lm(accessor_to_latter_map(a2))!=canon_lm(lm2): cnt['BAD views']+=1
                cnt['calls']+=1
            cnt['seqlen %d'%(steps//10*10)]+=1
    return cnt
if __name__=='__main__':
    t0=time.time()
    ms=[m for m in range(1,1<<16,int(sys.argv[1]))]
    with Pool(16) as p: rs=p.map(work,ms,chunksize=8)
    tot=collections.Counter()
    for c in rs: tot+=c
    print(sorted(tot.items()),round(time.time()-t0,1))
    # C18
    ok=True
    for k in range(1,7):
        for seed in list(range(64))+[2021,2**31-1]:
            s1=create_random_shuffles(k,seed); s2=create_random_shuffles(k,seed)
            ok&= (s1==s2).all() and s1.shape==(4**k,4) and s1 is not s2 and all(sorted(r)==[0,1,2,3] for r in s1.tolist())
    print('C18',ok)
    # C13
    bad=0;tot=0
    for k in range(1,9):
        N=4**k
        for v in range(N):
            s=number_to_dna(v,k); tot+=1
            if dna_to_number(s,is_string=False)!=v: bad+=1
            if obtain_latters(v,k)!=[dna_to_number(s[1:]+c,is_string=False) for c in NUC]: bad+=1
            if obtain_formers(v,k)!=[dna_to_number(c+s[:-1],is_string=False) for c in NUC]: bad+=1
    print('C13',tot,bad,round(time.time()-t0,1))
    # C16 long cost
    for L in (1024,4096):
        bits=[1]*L
        t=time.time(); n=bit_to_number(bits); t1=time.time()-t
        t=time.time(); b=number_to_bit(n,L); t2=time.time()-t
        print('C16',L,n==str(int('1'*L,2)),b==bits,round(t1,2),round(t2,2))
