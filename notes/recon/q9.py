from common import *
print(dsw.__file__)
install()
import faulthandler; faulthandler.dump_traceback_later(800,exit=True)
from multiprocessing import Pool
N=16
succ=[[(v*4+j)%N for j in range(4)] for v in range(N)]
def gfp(m,t):
    S=m
    while True:
        S2=0
        for v in range(N):
            if S>>v&1 and sum(S>>w&1 for w in succ[v])>=t: S2|=1<<v
        if S2==S: break
        S=S2
    if t==1:
        while True:
            good=0
            for v in range(N):
                if S>>v&1 and sum(S>>w&1 for w in succ[v])>=2: good|=1<<v
            ch=True
            while ch:
                ch=False
                for v in range(N):
                    if S>>v&1 and not good>>v&1 and any(good>>w&1 and S>>w&1 for w in succ[v]): good|=1<<v; ch=True
            S2=good
            while True:
                S3=0
                for v in range(N):
                    if S2>>v&1 and sum(S2>>w&1 for w in succ[v])>=1: S3|=1<<v
                if S3==S2: break
                S2=S3
            if S2==S: break
            S=S2
    return S
def work(m):
    out=[]
    for t in (1,2,3,4):
        mask=np.array([(m>>i)&1 for i in range(N)],dtype=bool)
        S=gfp(m,t)
        r=run(connect_coding_graph,2,mask,t,lim=10**5)
        if r[0]=='exc':
            out.append('ok-VE' if (r[1].startswith('ValueError') and S==0) else 'BAD '+r[1][:40]); continue
        if r[0]=='budget': out.append('BAD budget'); continue
        v,a=r[1]
        got=sum(1<<int(x) for x in obtain_vertices(a))
        if got!=S or S==0: out.append('BAD mismatch'); continue
        ok=all(a[u][j]==(succ[u][j] if (S>>u&1 and S>>succ[u][j]&1) else -1) for u in range(N) for j in range(4))
        vd = sum(1<<i for i in range(N) if v[i]) if (v.dtype==bool or (len(v)==N and set(v.tolist())<={0,1})) else sum(1<<int(x) for x in v)
        out.append('ok' if ok and vd==S else 'BAD arcs/vdesc')
    return out
if __name__=='__main__':
    t0=time.time()
    with Pool(16) as p: rs=p.map(work,range(0,1<<16,int(sys.argv[1])),chunksize=64)
    print(collections.Counter(x for r in rs for x in r),time.time()-t0)
