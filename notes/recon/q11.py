from common import *
install()
import faulthandler; faulthandler.dump_traceback_later(300,exit=True)
import copy, pickle
lit=np.array([[-1, -1, -1, -1], [ 4, -1, -1,  7], [ 8, -1, -1, 11], [-1, -1, -1, -1],[-1,  1,  2, -1], [-1, -1, -1, -1], [-1, -1, -1, -1], [-1, 13, 14, -1],[-1,  1,  2, -1], [-1, -1, -1, -1], [-1, -1, -1, -1], [-1, 13, 14, -1],[-1, -1, -1, -1], [ 4, -1, -1,  7], [ 8, -1, -1, 11], [-1, -1, -1, -1]])
A={'acc':lit.copy(),'mask':np.array([1,1,1,0,1,0,1,1,1,0,1,1,0,1,1,0]),'maskb':np.array([1,1,1,0,1,0,1,1,1,0,1,1,0,1,1,0],dtype=bool),
   'msg':np.array([1,0,1,1,0,1,0,0]),'tab':create_random_shuffles(2,7),'lm':accessor_to_latter_map(lit),
   'lm2':{0: [1, 2], 1: [], 2: [3, 4], 3: [0]},
   'filt':LocalBioFilter(observed_length=2,max_homopolymer_runs=1,gc_range=[0.5,0.5],undesired_motifs=["AA"]),'mat':accessor_to_adjacency_matrix(lit),
   'bits':[1,0,1,1]}
def snap(x):
    if isinstance(x,np.ndarray): return ('nd',x.dtype.str,x.shape,x.tobytes(),x.flags.writeable)
    if isinstance(x,dict): return ('d',tuple((k,snap(v)) for k,v in x.items()))
    if isinstance(x,list): return ('l',tuple(snap(v) for v in x))
    if isinstance(x,LocalBioFilter): return ('f',snap(dict(vars(x))))
    return ('v',repr(x))
ops={
 'encode':lambda: encode(A['msg'],A['acc'],1),
 'encode_fast_tab':lambda: encode(A['msg'],A['acc'],1,is_faster=True,shuffles=A['tab']),
 'encode_tab_vt_path':lambda: encode(A['msg'],A['acc'],1,shuffles=A['tab'],vt_length=3,need_path=True),
 'decode':lambda: decode("TCTCTCT",8,A['acc'],1,shuffles=A['tab']),
 'decode_fast':lambda: decode("AGAGAGAG",8,A['acc'],1,is_faster=True),
 'repair':lambda: repair_dna("TCTCTATCTCTC",A['acc'],1,2,has_indel=True),
 'repair_vt':lambda: repair_dna("TCTCTATCTCTC",A['acc'],1,2,vt_check="AACGC",has_indel=True),
 'path_matching':lambda: path_matching("TCTCTATCTCT",A['acc'],7,5,has_indel=True),
 'find_vertices':lambda: find_vertices(2,A['filt']),
 'cvg':lambda: connect_valid_graph(2,A['mask']),
 'ccg1':lambda: connect_coding_graph(2,A['mask'],1),
 'ccg2':lambda: connect_coding_graph(2,A['mask'],2),
 'ccg2b':lambda: connect_coding_graph(2,A['maskb'],2),
 'ccg3':lambda: connect_coding_graph(2,A['maskb'],3),
 'a2m':lambda: accessor_to_adjacency_matrix(A['acc']),
 'm2a':lambda: adjacency_matrix_to_accessor(A['mat']),
 'a2l':lambda: accessor_to_latter_map(A['acc']),
 'l2a':lambda: latter_map_to_accessor(A['lm'],2),
 'l2a_t':lambda: latter_map_to_accessor(A['lm'],2,threshold=2),
 'rm_useless':lambda: remove_useless(A['lm2'],1),
 'rm_useless2':lambda: remove_useless(A['lm'],2),
 'vertices':lambda: obtain_vertices(A['acc']),
 'leaf_a':lambda: obtain_leaf_vertices(1,2,accessor=A['acc']),
 'leaf_l':lambda: obtain_leaf_vertices(1,2,latter_map=A['lm']),
 'cap1':lambda: approximate_capacity(A['acc']),
 'cap3':lambda: (np.random.seed(1),approximate_capacity(A['acc'],repeats=3,process=True))[1],
 'score':lambda: calculate_intersection_score(A['lm'],2),
 'b2n':lambda: bit_to_number(A['bits']),
 'n2b':lambda: number_to_bit("11",4),
 'setvt':lambda: set_vt("TCTCTCT",4),
 'filt_valid':lambda: A['filt'].valid("ACGTCA",only_last=False),
 'shuf':lambda: create_random_shuffles(2,7),
}
def norm(x):
    if isinstance(x,np.ndarray): return ('nd',x.dtype.str,x.shape,x.tobytes())
    if isinstance(x,(tuple,list)): return tuple(norm(y) for y in x)
    if isinstance(x,dict): return tuple(sorted((int(k),norm(v)) for k,v in x.items()))
    if isinstance(x,np.generic): return x.item()
    return x
base=snap(A)
first={}
bad=0
for name,f in ops.items():
    r=run(f)
    first[name]=(r[0],norm(r[1]) if r[0]=='ok' else r[1])
    if snap(A)!=base: print('ARG MUTATED by',name); bad+=1; 
    # aliasing: does result alias args?
    if r[0]=='ok':
        outs=r[1] if isinstance(r[1],tuple) else (r[1],)
        for o in outs:
            if isinstance(o,np.ndarray):
                for an,av in A.items():
                    if isinstance(av,np.ndarray) and np.shares_memory(o,av): print('ALIAS',name,'result shares memory with',an)
            if isinstance(o,dict) and (o is A['lm'] or o is A['lm2']): print('ALIAS dict',name)
# pairs
npairs=0
for n1,f1 in ops.items():
    for n2,f2 in ops.items():
        run(f1); r=run(f2); npairs+=1
        got=(r[0],norm(r[1]) if r[0]=='ok' else r[1])
        if got!=first[n2]: print('HISTORY DIFF',n1,'->',n2); bad+=1
        if snap(A)!=base: print('ARG MUTATED in',n1,n2); bad+=1; break
print('ops',len(ops),'pairs',npairs,'bad',bad, {k:v[0] for k,v in first.items() if v[0]!='ok'})
