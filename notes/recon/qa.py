from common import *
install()
import faulthandler; faulthandler.dump_traceback_later(600,exit=True)
from multiprocessing import Pool
perms=list(itertools.permutations(range(4)))
def ref_encode(bits,acc,start,table,fast):
    v=start; out=[]
    if not fast:
        q=int("".join(map(str,bits)) or "0",2)
        while q!=0:
            live=[j for j in range(4) if acc[v][j]>=0]
            if len(live)>1:
                q,d=divmod(q,len(live))
                j=sorted(live,key=lambda j:(table[v][j] if table is not None else j))[d]
            else: j=live[0]
            out.append(NUC[j]); v=acc[v][j]
    else:
        loc=0;L=len(bits)
        while loc<L:
            live=[j for j in range(4) if acc[v][j]>=0]; r=len(live)
            if r==4: d=bits[loc]*2+(bits[loc+1] if loc+1<L else 0); loc+=2
            elif r==2: d=bits[loc]; loc+=1
            else: d=0
            j=sorted(live,key=lambda j:(table[v][j] if table is not None else j))[d]
            out.append(NUC[j]); v=acc[v][j]
    return "".join(out)
def wf(acc,start):
    seen={start}; st=[start]
    while st:
        u=st.pop()
        for j in range(4):
            w=int(acc[u][j])
            if w>=0 and w not in seen: seen.add(w); st.append(w)
    if any((acc[u]<0).all() for u in seen): return None
    good={u for u in seen if (acc[u]>=0).sum()>=2}; ch=True
    while ch:
        ch=False
        for u in seen:
            if u not in good and any(acc[u][j]>=0 and int(acc[u][j]) in good for j in range(4)): good.add(u); ch=True
    return seen if good==seen else None
msgs=[list(p) for L in range(0,6) for p in itertools.product([0,1],repeat=L)]
def work(code):
    acc=k1graph(code); cnt=collections.Counter(); ex=[]
    rnd=random.Random(code)
    for start in range(4):
        seen=wf(acc,start)
        if not seen: continue
        table=np.array([rnd.choice(perms) for _ in range(4)])
        nodeg3=all((acc[u]>=0).sum()!=3 for u in range(4))
        for tb in (None,table):
            for fast in (False,True):
                if fast and not nodeg3: continue
                for m in msgs:
                    r=run(encode,np.array(m,dtype=int),acc,start,is_faster=fast,shuffles=tb,lim=5000)
                    if r[0]!='ok': cnt['BAD enc '+str(r[1])[:30]]+=1; continue
                    s=r[1]
                    if s!=ref_encode(m,acc,start,tb,fast): cnt['BAD format']+=1; ex.append((code,start,fast,tb is not None,m,s))
                    r=run(decode,s,len(m),acc,start,is_faster=fast,shuffles=tb,lim=5000)
                    if r[0]!='ok' or list(r[1])!=m: cnt['BAD roundtrip']+=1
                    else: cnt['ok']+=1
    return cnt,ex[:2]
if __name__=='__main__':
    t0=time.time()
    with Pool(16) as p: rs=p.map(work,range(1,1<<16,int(sys.argv[1])),chunksize=16)
    tot=collections.Counter(); exs=[]
    for c,e in rs: tot+=c; exs+=e
    print(tot,round(time.time()-t0,1)); print(exs[:3])
